#!/bin/bash
# Offline build of the verification machinery (MANIFEST.setup_cmd).
set -e
cd "$(dirname "$0")"
export CARGO_NET_OFFLINE=true
( cd engine && cargo build --release -p driver 2>&1 | tail -3 )
./engine/target/release/verif setup
