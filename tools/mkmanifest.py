#!/usr/bin/env python3
"""Regenerates /verif/MANIFEST.json from the table below (kept valid at all times)."""
import json, subprocess, os
V = os.path.dirname(os.path.dirname(os.path.abspath(__file__)))
ids = [json.loads(l)['id'] for l in open(f'{V}/properties.jsonl')]
hook_commits = ["d6c2605", "7556b51", "cadacea"]

CLAIMED = {
 "C07": dict(engine="E2 corpus (TS-only)", technique="proptest-driven generation of generic definitions (lifetimes, const parameters, concrete(..), defaults over earlier parameters) x 2-4 instantiations; oracle = string equality across instantiations + swc parameter-list/scope analysis + witness search between expanded and concrete declaration",
   text="Generated generic types are compiled and every definition is instantiated 2-4 times: decl() must be the same string for all instantiations, generic over exactly the non-concretised type parameters in order with the expected defaults, mention no name it does not bind or that is not a type of the module; name() must be identifier<argument names>; the declaration expanded at the arguments must be indistinguishable (no JSON witness) from decl_concrete().",
   note="Const arguments are fixed at 2. Serde is not derived in this corpus; value-level agreement is C01/C14's business.",
   ref="DESIGN.md §4 C07"),
 "C14": dict(engine="E2 corpus", technique="proptest-driven generation with metamorphic presentation twins (by name / inline / flatten / as); oracle = witness search for a distinguishing JSON value + serde values on every twin",
   text="For each generated module one field of a user type is presented by name, inlined, flattened and via `as` on a structurally equal twin type (also under `#[ts(optional)]`); every twin is compiled. Serde values must inhabit every twin; by-name and inline may not be distinguishable by any enumerated/sampled JSON witness; the `as` twin's declaration must be textually the by-name one; by-name witnesses with the field merged into the parent must inhabit the flattened twin; decl_concrete() must equal `type N = inline()` and inline() must be indistinguishable from the declaration instantiated at the arguments.",
   note="Equivalence is decided by witness search only (no witness = counted as inconclusive equivalence). One known finding (optional_fields on a bare parameter instantiated with Option) is listed and excluded by construction.",
   ref="DESIGN.md §4 C14"),
 "C13": dict(engine="E2 corpus + schedules", technique="differential testing across K independent compilations (fresh hash seeds) and generated export schedules; oracle = byte equality",
   text="The same generated source (types with many dependencies, shared files) is compiled in 3 (quick) / 6 (thorough) slot crates by independent rustc processes; every binary dumps all public string-returning functions 12 times and exports all types under generated orders, thread counts {1,2,8,16} and delay tapes; dumps and export trees must be identical between calls, schedules and binaries.",
   note="The hash seed of the macro process cannot be set from outside; detection of an order leak is probabilistic (stated in the evidence). dependencies() order is not compared.",
   ref="DESIGN.md §4 C13"),
 "C15": dict(engine="E2 corpus", technique="proptest-driven generation of doc texts x positions with metamorphic twins (docs removed / changed); oracle = comment-free swc AST equality + swc comment attachment",
   text="Every generated module is compiled three times (as generated, docs removed, docs changed); the comment-free swc ASTs of all declarations must be identical. Each doc comment of a type or named field must appear as exactly one block comment that swc attaches to the documented declaration/property, separated by white space only and containing every doc line; no other comment may exist; the texts and the files written into shared files must satisfy C04's conditions.",
   note="Docs of flattened fields and variants are documented as dropped. The same-file merge findings of C05 are listed for C15 as one known finding and excluded from the merged part of the search.",
   ref="DESIGN.md §4 C15"),
 "C12": dict(engine="E2 corpus", technique="proptest-driven generation of library type expressions x generated values; oracle = serde_json output in the swc-parsed type, witnesses deserialise, dependencies == type arguments",
   text="Type expressions over the supported std library types (NonZero*, paths, network addresses, Option/Result/Vec/slices/str, arrays, tuples of arity 1..10, sets, maps with every key kind incl. wrapped unit-enum keys, ranges, smart pointers and locks) composed to depth 3 are placed in generated wrapper types and compiled; serialised values must inhabit the reported type, witnesses of the reported type must deserialise (where no leaf parses its string), dependencies() must equal the user types the declaration mentions; array lengths 0..=65 are checked for the tuple/Array switch-over at 64.",
   note="Feature-gated third-party crates are not exercised in the quick tier. PhantomData and Weak are listed known findings.",
   ref="DESIGN.md §4 C12"),
 "C06": dict(engine="E3 histories", technique="model-based testing: proptest-generated export histories interpreted against a reference model (set of exported definitions per canonical directory + reference file combiner), invariant checked after every step, failing histories shrunk step-wise",
   text="Generated universes of types that share files and depend on each other are compiled once; per universe 60 (quick) / 400 (thorough) generated histories over export / export_all / export_all_to with 4 TS_RS_EXPORT_DIR settings, 8 spellings of two directories and 4 initial directory states run through the real functions (registry reset hook between histories); after every call the directory tree must equal the tree the model predicts.",
   note="The model trusts export_to_string() of a single type as the standalone text of its declaration and the reference combiner (oracles::combine); placements do not leave the base directory. The reset hook only clears the registry.",
   ref="DESIGN.md §4 C06"),
 "C17": dict(engine="E3 histories", technique="fault injection into generated export histories (model-based): obstacle before a generated step, retry after removal, reference model as oracle",
   text="C06's histories with one file-system obstacle (target path is a directory / parent component is a regular file) injected before a generated step that really has to write the blocked file; the call must return Err (no panic, no Ok), must leave other files byte-identical and its own targets unchanged or a well-formed combination, and after removing the obstacle and retrying the tree must equal the fault-free model for the rest of the history. Non-exportable roots and a path above the file system root must be reported as errors through all three entry points.",
   note="Faults are file-system obstacles, not I/O errors in mid-write (std::fs is not replaceable additively).",
   ref="DESIGN.md §4 C17"),
 "C03": dict(engine="E2 corpus", technique="proptest-driven generation of dependency graphs x placements x directory spellings; oracle = swc free-name analysis of every written file + reference path resolver",
   text="Generated modules (references, generics, defaults, inline, flatten, self reference, shared files, nested and `../` placements) are compiled, every registered type is exported as root into a fresh directory under one of 6 spellings, and each written file is parsed: names used minus names declared must equal the imported names (once each), every specifier must resolve to a file of the same export that declares the name, no self import; dependencies() must cover the free names of decl().",
   note="Used names come from tsmodel::free_type_names over swc's AST, not from ts-rs. import-esm is built in the thorough tier only.",
   ref="DESIGN.md §4 C03"),
 "C04": dict(engine="E2 corpus", technique="proptest-driven generation over identifier/string/doc pools; oracle = independent TypeScript grammar (swc) + layout conditions",
   text="Generated types with raw/keyword/non-ASCII identifiers, rename/tag/content strings needing quoting, doc comments of every style with hostile text, several types per file and stale files at the targets are exported; every written file and every export_to_string() must parse with swc without recoverable errors, start with the notice, consist of `import type` statements followed by `export type` aliases, declare exactly the TS names mapped to it once each, end with a newline and declare no property twice.",
   note="swc is more lenient than tsc in places (reserved words as alias names). Strings needing escaping are covered by two listed known findings and excluded from the search.",
   ref="DESIGN.md §4 C04"),
 "C11": dict(engine="E2 corpus", technique="proptest-driven generation of graphs/placements with pre-existing files; oracle = directory snapshot diff against the documented path rule over text-derived reachability",
   text="For every registered type exported as root (export_all_to / export_all with TS_RS_EXPORT_DIR, 6 spellings) the set of created-or-modified files must equal { dir / documented_path(U) } for the definitions U reachable from the root through the names in the swc-parsed declarations; nothing may be removed, unrelated files stay byte-identical, stale files at targets are replaced, and output_path() must equal the documented rule.",
   note="Reachability is read off declaration texts, independent of visit_dependencies. `concrete(..)`/associated-type graphs are not generated.",
   ref="DESIGN.md §4 C11"),
 "C01": dict(engine="E2 corpus", technique="proptest-driven program generation (compile step in the loop) x generated values; oracle = serde_json output must be a member of the swc-parsed TypeScript denotation",
   text="Generated modules of related types in the serde/ts-rs fragment are compiled against /repo; >=64 generated values per type are serialised by serde_json and each must inhabit name()/decl(), inline() and decl_concrete() under an independent TypeScript model (exact objects, DNF intersections). Failing modules are shrunk 16 candidates per build.",
   note="Trusts swc's parser and tsmodel's denotation (unit-tested, self-checked) and serde_json as the wire format. Generator soundness rules are listed in DESIGN.md Appendix C; serde refusing to serialise is vacuous.",
   ref="DESIGN.md §4 C01"),
 "C02": dict(engine="E2 corpus", technique="type-directed witness enumeration + tape sampling + near-miss mutation of real samples; oracle = serde Deserialize accepts and re-serialisation inhabits the type",
   text="For every generated type on which serde round-trips its own output (as unordered JSON, including everything the type is built from), witnesses of the declared TypeScript type (each union arm, optional-property subsets, arrays 0..2, maps 0..1, safe leaf pool) and leaf-coerced near-miss mutants of real samples are deserialised by the compiled type.",
   note="Leaves restricted to values every Rust leaf accepts; serde's Content-buffer limitations (128-bit, non-string keys) are kept out of the generator and recognised by message.",
   ref="DESIGN.md §4 C02"),
 "C09": dict(engine="E1 macro-inproc", technique="exhaustive small-scope enumeration + proptest generation of identifiers; differential oracle = serde_derive's own case.rs",
   text="All Rust identifiers up to length 4 (quick) / 5 (thorough) over an 11-letter mixed alphabet, a pool of raw/mixed-case/non-ASCII names and proptest identifiers up to length 16 are put, for each of the 8 rules and 4 positions, into a one-field / one-variant item that is expanded by the real derive pipeline in-process; the wire name computed by serde_derive's own (included, unmodified) case.rs must be among the string literals of the expansion.",
   note="Trusts serde_derive-1.0.215/src/internals/case.rs as the statement of serde's behaviour, and that the embedded string literal is the emitted name (confirmed on compiled code by C01's corpus). Identifiers on which serde_derive itself panics are outside the domain.",
   ref="DESIGN.md §4 C09"),
 "C10": dict(engine="E1 macro-inproc", technique="proptest-generated items under metamorphic spelling transformations; oracle = equality of real expansions",
   text="Generated valid items are rendered in spelling variants (all-serde, all-ts, one list per key, both spellings with equal/different values, one unsupported serde key inserted at every attribute position and list index) and expanded in-process under three feature builds; the expansions of related variants must be equal as token multisets, and with serde-compat off serde attributes must have no effect.",
   note="Token order is deliberately forgotten (hash-order of dependency statements). The relation is on expansions, not compiled output.",
   ref="DESIGN.md §4 C10"),
 "C16": dict(engine="E1 macro-inproc + E2 compile verdict", technique="proptest generation from an attribute grammar wider than the supported fragment; oracle = catch_unwind + documented-rejection table + rustc verdict on accepted items",
   text="Items with any subset of ts/serde keys (valid, malformed, unknown, duplicated, misplaced) at container/variant/field level over all shapes, generics forms and unusual identifiers are expanded in-process under catch_unwind, with and without serde-compat: no panic; every documented incompatibility present in the ts-spelled (or cleanly serde-spelled) attributes is rejected; a lone unknown ts key is named.",
   note="The rejection table is Appendix D of DESIGN.md (read off the TS trait docs and assert_validity); field/variant rejections are only expected where the derive processes that field/variant. Compiled half: TS-only generated modules (rich generics, optional, flatten, inline, unusual identifiers) are built against /repo; a module rustc rejects although the in-process derive accepts every item (or with an error code about the TS trait) is a violation, and `#[ts(optional)]` on a non-Option field must fail to compile.",
   ref="DESIGN.md §4 C16"),
 "C08": dict(engine="E4 purefn", technique="exhaustive small-scope enumeration + proptest generation + libFuzzer (cargo-fuzz) of path pairs against a lexical reference resolver (differential oracle)",
   text="Every pair (importing file, dependency file) over the stated component alphabet is enumerated exhaustively up to directory depth 2 (quick) / 3 (thorough) under 5 base spellings, with and without import-esm, plus proptest-generated odd/long components; each specifier produced by the real import_path (through the cfg(ts_rs_verif) hook) is resolved by an independent lexical resolver and must denote the dependency's file. Exploration level: exhaustive within the bound, sampled beyond it.",
   note="Trusts oracles::paths (60 lines, unit-tested) as the reading of TypeScript's relative-specifier resolution; POSIX only. The hook re-exports the private functions unchanged.",
   ref="DESIGN.md §4 C08"),
 "C05": dict(engine="E4 purefn (text level) + E3 histories", technique="proptest-generated sets of declarations folded through merge() in all permutations/prefixes, and a libFuzzer target over the same structure, against a reference file combiner (model-based oracle)",
   text="Text level: generated sets of standalone texts are merged in every permutation (<=4 elements, 30/120 for 5) and every prefix through the real merge(); the result must be byte-identical to an independently written combiner that takes texts apart with swc spans. File level: generated universes of compiled types sharing files are exported one type at a time in generated permutations (tree == combiner after every step, re-export idempotent) and from 2-8 threads under generated delay tapes at the yield points inside export_and_merge (final tree == combiner).",
   note="Reference combiner orders declarations by the declaration head token (identifier incl. generic parameter list), the reading under which the current tree is right for `Foo<T>` vs `Foo2`. Three genuine defects of the text-splitting merge are listed in known_findings.json and excluded by construction from the search.",
   ref="DESIGN.md §4 C05"),
}

def main():
    checks = []
    for pid in ids:
        if pid not in CLAIMED: continue
        c = CLAIMED[pid]
        checks.append({
            "property_id": pid,
            "quick_cmd": f"./check {pid} quick",
            "thorough_cmd": f"./check {pid} thorough",
            "evidence_file": f"evidence/{pid}.json",
            "replay_cmd_template": f"./check {pid} --replay {{path}}",
            "engine": c["engine"],
            "level_claimed": {"category": "exploration", "text": c["text"], "design_ref": c["ref"]},
            "level_note": c["note"],
            "technique": c["technique"],
        })
    m = {
        "version": 1,
        "setup_cmd": "./setup.sh",
        "hooks": {
            "guard": "ts_rs_verif",
            "enable": "rustc --cfg ts_rs_verif, set for every crate of the generated workspace engine/subjects through its .cargo/config.toml ([build] rustflags) together with [env] TS_RS_VERIF_MACROS_INCLUDE=<verif>/engine/macros_include/mod.rs; nothing in /repo sets the flag",
            "baseline_off_cmd": "cd /repo && (cargo nextest run --workspace --no-fail-fast --offline --test-threads 8 || cargo test --workspace --no-fail-fast --offline)",
            "source_commits": hook_commits,
            "add_only": True,
        },
        "engines": [
            {"name": "E1 macro-inproc", "path": "engine/macros_include", "serves_properties": ["C09", "C10", "C16"], "kind_free_text": "proptest inside a proc-macro harness package whose lib path is /repo/macros/src/lib.rs"},
            {"name": "E2 corpus", "path": "engine/typegen + engine/rt + engine/driver", "serves_properties": ["C01", "C02", "C03", "C04", "C07", "C11", "C12", "C13", "C14", "C15"], "kind_free_text": "generated Rust crates compiled against /repo, interrogated through a line protocol; oracles (serde, swc/tsmodel) in the driver"},
            {"name": "E3 histories", "path": "engine/driver", "serves_properties": ["C05", "C06", "C17"], "kind_free_text": "generated export histories / schedules / faults against a reference model"},
            {"name": "E4 purefn", "path": "engine/purefn", "serves_properties": ["C08", "C05"], "kind_free_text": "proptest + exhaustive enumeration + libFuzzer on the runtime hooks"},
        ],
        "checks": checks,
        "notes": "All checks: ./check <ID> quick|thorough, VERIF_SEED honoured. Exit 0 ok (KNOWN-FINDING lines for listed findings), 1 VIOLATION, 2 INCONCLUSIVE (infrastructure). See DESIGN.md.",
        "not_applicable": [{"property_id": i, "reason": "check not built yet (work in progress; will be claimed once its engine exists)"} for i in ids if i not in CLAIMED],
    }
    json.dump(m, open(f'{V}/MANIFEST.json', 'w'), indent=1)

main()
