#!/bin/bash
# usage: tools/confirm_mutant.sh <ID> <mK> <worktree>   -- confirm a seeded change in a scratch worktree:
#   compiles, existing suite passes, demo fails with the change and passes without it.
id=$1; mk=$2; wt=$3
dir=${MUTROOT:-/tmp/mut}/$id/$mk
patch=$dir/patch.diff; [ -f $dir/patch.rebased.diff ] && patch=$dir/patch.rebased.diff
extra=""
case "$id/$mk" in
  C10/m1) extra="--features no-serde-warnings";;
  C10/m3) if [ "${MUTROOT:-}" = /tmp/mut2 ]; then extra="--no-default-features --features no-serde-warnings"; else extra="--no-default-features"; fi;;
  C08/m3) [ "${MUTROOT:-}" = /tmp/mut2 ] && extra="--features import-esm";;
  C02/m3) [ "${MUTROOT:-}" = /tmp/mut2 ] && extra="--features no-serde-warnings";;
  C12/m3) [ "${MUTROOT:-}" = /tmp/mut2 ] && extra="--features heapless-impl";;
  C04/m3) [ "${MUTROOT:-}" = /tmp/mut2 ] && extra="--features format";;
esac
case "${MUTROOT:-}" in /tmp/mut3|/tmp/mut4) extra="";; esac
[ -f $dir/features.txt ] && extra=$(cat $dir/features.txt)
cd $wt || exit 2
git checkout -q -- . ; git clean -fdq -e target
res="$id/$mk"
if ! git apply $patch 2>/dev/null; then if ! git apply --3way $patch 2>/dev/null; then echo "$res APPLY-FAIL"; git checkout -q -- .; exit 0; fi; git reset -q; fi
if ! cargo build --offline --workspace >/dev/null 2>&1; then echo "$res BUILD-FAIL"; git checkout -q -- .; exit 0; fi
suite=$(cargo test --workspace --no-fail-fast --offline 2>&1 | grep -E "^test result" | awk '{p+=$4; f+=$6} END {print p"/"f}')
cp $dir/demo.rs ts-rs/tests/seeded_demo.rs
with=$(cargo test --offline -p ts-rs --test seeded_demo $extra 2>&1 | grep -E "^test result|error: could not compile|error\[" | head -1)
git checkout -q -- . 
cp $dir/demo.rs ts-rs/tests/seeded_demo.rs
without=$(cargo test --offline -p ts-rs --test seeded_demo $extra 2>&1 | grep -E "^test result|error: could not compile|error\[" | head -1)
rm -f ts-rs/tests/seeded_demo.rs; rm -rf ts-rs/bindings
echo "$res suite(pass/fail)=$suite | WITH: $with | WITHOUT: $without"
