#!/bin/bash
# usage: tools/revalidate_lane.sh <verif dir> <repo dir> <out file> <seeded dir name>...
# Re-runs kept seeded changes against the current checks: own check first, then the checks
# recorded in meta.json (quick_checks_run), until one reports a violation.
V=$1; R=$2; OUT=$3; shift 3
for name in "$@"; do
  d=/verif/seeded/$name; id=${name%%-*}
  patch=$d/patch.diff; [ -f $d/patch.rebased.diff ] && patch=$d/patch.rebased.diff
  list=$(python3 -c "
import json,sys
m=json.load(open('$d/meta.json'))
l=[]
for k in ('quick_checks_run','detected_by_quick_checks','detected_by_quick_checks_at_2a472e8'):
    v=m.get(k) or []
    if isinstance(v,dict): v=list(v.keys())
    for c in v:
        if isinstance(c,str) and c.startswith('C') and len(c)==3 and c!='$id' and c not in l: l.append(c)
print(' '.join(['$id']+l))")
  git -C $R reset --hard -q HEAD; git -C $R clean -fdq -e target
  if ! git -C $R apply "$patch" 2>/dev/null; then
    if ! git -C $R apply --3way "$patch" 2>/dev/null || git -C $R status --porcelain | grep -q '^U'; then echo "== $name: PATCH DOES NOT APPLY" >> $OUT; git -C $R reset --hard -q HEAD; continue; fi
    git -C $R reset -q
  fi
  res=""
  for c in $list; do
    out=$(cd $V && VERIF_REPO=$R ./check $c quick 2>&1); rc=$?
    res="$res $c rc=$rc $(echo "$out" | grep -E 'VIOLATION|INCONCLUSIVE' | head -1 | cut -c1-160) "
    [ $rc = 1 ] && break
  done
  echo "== $name:$res" >> $OUT
  git -C $R reset --hard -q HEAD; git -C $R clean -fdq -e target
done
