#!/bin/bash
# usage: lane.sh <verif dir> <repo dir> <out file> <ID>...   final evaluation of round 4
V=$1; R=$2; OUT=$3; shift 3
declare -A LIST=( [C01]="C01 C02 C14 C10" [C02]="C02 C01 C09" [C03]="C03 C11 C12" [C04]="C04 C05 C01 C15" [C05]="C05 C06" [C06]="C06 C05 C03 C08" [C07]="C07 C14 C12" [C08]="C08 C03" [C09]="C09 C10 C01" [C10]="C10 C03 C15 C16" [C11]="C11 C03 C17 C06" [C12]="C12 C01 C14 C03" [C13]="C13 C06 C03 C07" [C14]="C14 C01 C02" [C15]="C15 C05 C04" [C16]="C16 C10" [C17]="C17 C06 C11" )
for id in "$@"; do for k in 1 2 3; do
  d=/tmp/mut4/$id/m$k; patch=$d/patch.diff; [ -f $d/patch.rebased.diff ] && patch=$d/patch.rebased.diff
  git -C $R reset --hard -q HEAD; git -C $R clean -fdq -e target
  if ! git -C $R apply "$patch" 2>/dev/null; then echo "== $id-m$k: PATCH DOES NOT APPLY" >> $OUT; continue; fi
  res=""
  for c in ${LIST[$id]}; do
    out=$(cd $V && VERIF_REPO=$R ./check $c quick 2>&1); rc=$?
    res="$res $c rc=$rc $(echo "$out" | grep -E 'VIOLATION|INCONCLUSIVE' | head -1 | cut -c1-200) "
    [ $rc = 1 ] && break
  done
  echo "== $id-m$k:$res" >> $OUT
  git -C $R reset --hard -q HEAD; git -C $R clean -fdq -e target
done; done
