#!/bin/bash
# usage: tools/mutant.sh <patch.diff> <ID> [<ID>...]   -- apply a seeded change to /repo, run quick checks, undo.
patch="$1"; shift
cd /verif
if [ -n "$(git -C /repo status --porcelain)" ]; then echo "/repo not clean"; exit 2; fi
if ! git -C /repo apply --3way "$patch" 2>/dev/null; then
  git -C /repo reset --hard -q HEAD
  if ! git -C /repo apply "$patch"; then echo "PATCH DOES NOT APPLY: $patch"; git -C /repo reset --hard -q HEAD; exit 2; fi
fi
if git -C /repo status --porcelain | grep -q '^U'; then echo "PATCH CONFLICTS: $patch"; git -C /repo reset --hard -q HEAD; exit 2; fi
for id in "$@"; do
  out=$(./check $id ${TIER:-quick} 2>&1); rc=$?
  echo "$id rc=$rc $(echo "$out" | grep -E 'VIOLATION|INCONCLUSIVE' | head -2 | tr '\n' ' ')"
done
git -C /repo reset --hard -q HEAD
