#!/usr/bin/env python3
"""Import the round-2 seeded changes from /tmp/mut2 into /verif/seeded/<ID>-r2m<k>/ with the
confirmation (tools/confirm_mutant.sh) and detection (tools/mutant.sh) results."""
import json, os, re, shutil, sys
root = os.environ.get('MUTROOT', '/tmp/mut2')
rnd = int(os.environ.get('ROUND', '2'))
confirm = {}
for f in ['confirm_a.txt', 'confirm_a2.txt', 'confirm_b.txt', 'confirm_c.txt']:
    p = os.path.join(root, f)
    if not os.path.exists(p): continue
    for line in open(p):
        m = re.match(r'^(C\d\d)/(m\d) (.*)$', line.strip())
        if m: confirm[(m.group(1), m.group(2))] = m.group(3)
detected = {}
for line in open(os.path.join(root, sys.argv[1] if len(sys.argv) > 1 else 'results_final.txt')):
    m = re.match(r'^== (C\d\d)-(m\d): (.*)$', line.strip())
    if not m: continue
    body = m.group(3)
    ids = re.findall(r'(C\d\d) rc=(\d)', body)
    detected[(m.group(1), m.group(2))] = {'caught': [i for i, rc in ids if rc == '1'], 'ran': [i for i, _ in ids], 'problem': ('PATCH' in body)}
head = os.popen('git -C /repo log --format=%h -1').read().strip()
for (pid, mk), det in sorted(detected.items()):
    src = os.path.join(root, pid, mk)
    dst = f'/verif/seeded/{pid}-r{rnd}{mk}'
    os.makedirs(dst, exist_ok=True)
    for f in ['patch.diff', 'demo.rs', 'demo.md', 'Cargo.toml', 'features.txt']:
        if os.path.exists(os.path.join(src, f)): shutil.copy(os.path.join(src, f), os.path.join(dst, f))
    if os.path.exists(os.path.join(src, 'patch.rebased.diff')):
        shutil.copy(os.path.join(src, 'patch.rebased.diff'), os.path.join(dst, 'patch.rebased.diff'))
    meta = json.load(open(os.path.join(src, 'meta.json')))
    meta['round'] = rnd
    meta['author_ran'] = meta.pop('ran', meta.get('author_ran'))
    if rnd == 2:
        meta['written_against_repo_commit'] = 'd418550'
    elif rnd == 3:
        meta['written_against_repo_commit'] = '2a472e8' if pid <= 'C06' else ('a1a1e41' if pid <= 'C12' else '8551cf1')
    else:
        meta['written_against_repo_commit'] = '30ceb26' if pid <= 'C09' else 'cadacea'
    meta['checks_run_against_repo_commit'] = head
    meta['confirmed_by_me'] = {
        'how': 'tools/confirm_mutant.sh in a scratch worktree of /repo (outside /repo and /verif): git apply; cargo build --workspace; cargo test --workspace --no-fail-fast --offline; demo as ts-rs/tests/seeded_demo.rs with the change and without it (with the cargo features the demo names)',
        'result': confirm.get((pid, mk), 'not recorded'),
    }
    meta['quick_checks_run'] = det['ran']
    meta['detected_by_quick_checks'] = det['caught']
    meta['how_detection_was_run'] = 'tools/mutant.sh <patch> <ID..> : git -C /repo apply; ./check <ID> quick; git -C /repo reset --hard' if rnd < 4 else 'tools/mutant_lanes.sh: git apply (patch.rebased.diff where present) to /repo or to a scratch worktree used through VERIF_REPO by a mirror of /verif; ./check <own ID> quick, then the neighbouring checks until one reports a violation; git reset --hard'
    if det['problem']: meta['note'] = 'patch did not apply to the current /repo HEAD'
    json.dump(meta, open(os.path.join(dst, 'meta.json'), 'w'), indent=1, ensure_ascii=False)
    print(pid, mk, det['caught'] or 'MISSED', '(problem)' if det['problem'] else '')
