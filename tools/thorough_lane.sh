#!/bin/bash
# usage: thorough_lane.sh <verif> <repo> <out> <ID>...
V=$1; R=$2; OUT=$3; shift 3
cd $V; export VERIF_REPO=$R
for id in "$@"; do
  s=$(date +%s); out=$(./check $id thorough 2>&1 | grep -E "^(OK|VIOLATION|INCONCLUSIVE)" | head -3 | cut -c1-220 | tr '\n' ' '); e=$(date +%s)
  echo "$id $((e-s))s $out" >> $OUT
done
