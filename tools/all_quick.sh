#!/bin/bash
# usage: all_quick.sh <verif dir> <repo> <seed> 
cd $1; export VERIF_REPO=$2 VERIF_SEED=$3
for id in C01 C02 C03 C04 C05 C06 C07 C08 C09 C10 C11 C12 C13 C14 C15 C16 C17; do
  s=$(date +%s); out=$(./check $id quick 2>&1 | grep -E "^(OK|VIOLATION|INCONCLUSIVE)" | head -3 | cut -c1-200 | tr '\n' ' '); e=$(date +%s)
  echo "$id $((e-s))s $out"
done
