//! Pure part of the text-level C05 check (no proptest): the format of standalone texts, the
//! mirror of export_and_merge on strings and the comparison with the reference combiner. Used by
//! the proptest driver (c05text.rs) and by the libFuzzer target.
use std::panic::catch_unwind;

use oracles::combine;
use serde_json::{json, Value};

#[derive(Clone, Debug)]
pub struct Piece {
    pub name: String,
    pub generics: String,
    pub imports: Vec<(String, Vec<String>)>,
    pub doc: Option<Vec<String>>,
    pub body: String,
}

pub const NAMES: &[&str] = &[
    "A", "B", "Foo", "Foo2", "FooBar", "Foo_", "Bar", "a", "_x", "Zed", "Zed9", "Ünï", "Page", "Page2", "Pa", "$d", "Z", "Wide", "WideToo",
];
pub const GENERICS: &[&str] = &["", "", "", "<T>", "<T, U>", "<T = number>"];
pub const MODS: &[&str] = &["./x", "./y", "../z/w", "./sub/deep", "./Foo", "../../up", "./a.b", "./my from dir/x", "../a;b/Dep", "./with space/y"];
pub const IMPORT_NAMES: &[&str] = &[
    "X", "Y", "Dep", "DepA", "DepB", "Foo3", "Q", "from", "type", "Dependency01", "Dependency02", "Dependency03", "Dependency04", "Dependency05",
    "Dependency06", "Dependency07", "Dependency08", "Dependency09", "Dependency10", "Dependency11", "Dependency12",
];
pub const DOC_LINES: &[&str] = &[
    " plain words",
    " export type Z = number;",
    "export type Q",
    " import type { Q } from \"./q\";",
    " a from b",
    " ends with brace }",
    " & { weird }",
    "",
    " quotes \" and ' and \\",
    " ünïcödé 中",
    " /* nested opener",
    " @deprecated use `Other`",
];
/// block comments (`/** .. */` or one multi-line `#[doc = ".."]`) are copied verbatim: their
/// lines start in column 0
pub const RAW_BLOCK_DOCS: &[&str] = &[
    "\n * block doc\n * second line\n ",
    " first line\nexport type Foo gone\n last ",
    " first\nexport type A = number;\nexport type Zed<T> = T;\n",
    "\nimport type { Q } from \"./q\";\nexport type Bar\n",
    " see src/**\\/x\n   indented\n\texport type B\n",
];
pub const BODIES: &[&str] = &[
    "number",
    "{ a: number, b: string, }",
    "\"A\" | \"B\"",
    "{ \"t\": \"X\" } & { y: number, }",
    "{ \n/**\n * field doc\n */\na: number, }",
    "{ \n/**\n * field doc\n */\na: number, \n/**\n * second\n */\nb: X | null, }",
    "Array<X>",
    "{ [key in string]?: Y }",
    "[number, string]",
    // what `#[ts(type = "..")]` fields can bring in: arrow types (a `>` without `<`), generic
    // argument lists, brackets and comment openers inside string literals - each followed by a
    // documented field, which starts a new line with `/**`
    // unmatched brackets inside field docs
    "{ \n/**\n * 1) first item :)\n */\na: number, \n/**\n * second ] }\n */\nb: number, \n/**\n * third\n */\nc: X, }",
    "{ \n/**\n * opens ( [ {\n */\na: number, \n/**\n * second\n */\nb: number, }",
    "{ cb: (n: number) => void, \n/**\n * after the arrow\n */\nb: number, }",
    "{ \n/**\n * one\n */\na: Array<Map<string, X>>, \n/**\n * two\n */\nb: (x: X) => (y: Y) => void, \n/**\n * three\n */\nc: number, }",
    "{ s: \"a } b\" | \"{\" | \"(\", \n/**\n * after brackets in strings\n */\nb: number, }",
    "{ a: \"no /* comment\", \n/**\n * doc\n */\nb: X extends Array<infer U> ? U : \"<\", \n/**\n * last\n */\nc: number, }",
];
// bodies that only go in when the corresponding known finding is not excluded
pub const BODY_EXPORT_WORD: &str = "{ \n/**\n * says export type Zzz here\n */\na: number, }";
pub const BODY_BLANK_LINE: &str = "{ \n/** first\n\n second */\na: number, }";

pub fn render(p: &Piece, note: &str) -> String {
    let mut s = String::from(note);
    for (m, names) in &p.imports {
        // (a piece named `Wide..` writes its imports the way a formatter wraps long statements:
        // one name per line)
        if p.name.starts_with("Wide") && names.len() >= 2 {
            s.push_str("import type {\n");
            for n in names {
                s.push_str(&format!("  {n},\n"));
            }
            s.push_str(&format!("}} from \"{m}\";\n"));
        } else {
            s.push_str(&format!("import type {{ {} }} from \"{}\";\n", names.join(", "), m));
        }
    }
    s.push('\n');
    if let Some(doc) = &p.doc {
        if doc.len() == 1 && doc[0].contains('\n') {
            s.push_str(&format!("/**{}*/\n", doc[0]));
        } else {
            s.push_str("/**\n");
            for l in doc {
                s.push_str(" *");
                s.push_str(l);
                s.push('\n');
            }
            s.push_str(" */\n");
        }
    }
    s.push_str(&format!("export type {}{} = {};\n", p.name, p.generics, p.body));
    s
}

pub fn permutations(n: usize) -> Vec<Vec<usize>> {
    fn rec(cur: &mut Vec<usize>, used: &mut Vec<bool>, n: usize, out: &mut Vec<Vec<usize>>) {
        if cur.len() == n {
            out.push(cur.clone());
            return;
        }
        for i in 0..n {
            if !used[i] {
                used[i] = true;
                cur.push(i);
                rec(cur, used, n, out);
                cur.pop();
                used[i] = false;
            }
        }
    }
    let mut out = vec![];
    rec(&mut vec![], &mut vec![false; n], n, &mut out);
    out
}

/// mirror of `export_and_merge` on strings: write the merged buffer at offset NOTE.len() without
/// truncating
pub fn apply_merge(note: &str, file: &str, new: &str) -> Result<String, String> {
    let (f, n) = (file.to_string(), new.to_string());
    let merged = catch_unwind(move || ts_rs::verif_hooks::merge(f, n)).map_err(|_| "merge panicked".to_string())?;
    // (the file is cut to the new length; `check_set_files` drives the real writing code)
    let _ = file;
    Ok(format!("{note}{merged}"))
}

/// The same orders through the code that really writes the file (`export_and_merge`, reached
/// through the hook): first write, merges, and a repeated export of the first type at the end.
pub fn check_set_files(note: &str, texts: &[String], names: &[String], orders: &[Vec<usize>], dir: &std::path::Path) -> Option<Value> {
    let parts: Vec<combine::Standalone> = texts.iter().filter_map(|t| combine::parse_standalone(t, note).ok()).collect();
    if parts.len() != texts.len() {
        return None;
    }
    let path = dir.join("shared.ts");
    for order in orders {
        std::fs::remove_file(&path).ok();
        ts_rs::verif_hooks::reset_registry();
        let steps: Vec<usize> = order.iter().copied().chain([order[0]]).collect();
        for (k, i) in steps.iter().enumerate() {
            let (p, name, text) = (path.clone(), names[*i].clone(), texts[*i].clone());
            let res = catch_unwind(move || ts_rs::verif_hooks::export_and_merge(p, name, text));
            let done = (k + 1).min(order.len());
            let subset: Vec<combine::Standalone> = order[..done].iter().map(|j| parts[*j].clone()).collect();
            let expected = if subset.len() == 1 { texts[order[0]].clone() } else { combine::combine(note, &subset) };
            let observed = std::fs::read_to_string(&path).unwrap_or_default();
            let problem = match res {
                Err(_) => Some("export_and_merge panicked".to_string()),
                Ok(Err(e)) => Some(format!("export_and_merge returned {e}")),
                Ok(Ok(())) if observed != expected => Some("the file differs from the reference combiner".to_string()),
                _ => None,
            };
            if let Some(what) = problem {
                ts_rs::verif_hooks::reset_registry();
                return Some(json!({
                    "signature": "file-written-differs-from-reference",
                    "message": format!("writing {:?} in this order through export_and_merge (step {k}): {what}", &steps[..=k]),
                    "case": {"kind": "c05files", "texts": texts, "names": names, "order": order},
                    "expected": expected, "observed": observed,
                }));
            }
        }
    }
    std::fs::remove_file(&path).ok();
    ts_rs::verif_hooks::reset_registry();
    None
}

pub fn signature(texts: &[String]) -> &'static str {
    // generator-side twins of the known findings
    for t in texts {
        let decl = t.splitn(2, "\n\n").nth(1).unwrap_or("");
        if decl.trim_end_matches('\n').contains("\n\n") {
            return "blank-line-in-declaration";
        }
        // the words `export type ` *after* the start of the real declaration (a field doc)
        let after_doc = if decl.starts_with("/**") { decl.split_once("*/").map_or(decl, |x| x.1) } else { decl };
        if after_doc.trim_start().matches("export type ").count() > 1 {
            return "export-type-in-field-doc";
        }
    }
    if texts.iter().any(|t| t.contains("{ from") || t.contains(", from")) {
        return "import-of-type-named-from";
    }
    "merge-differs-from-reference"
}

/// check one set of texts in the given orders; returns failure json
pub fn check_set(note: &str, texts: &[String], orders: &[Vec<usize>]) -> Option<Value> {
    let parts: Result<Vec<combine::Standalone>, String> = texts.iter().map(|t| combine::parse_standalone(t, note)).collect();
    let parts = match parts {
        Ok(p) => p,
        Err(e) => {
            return Some(json!({"signature": "generator-unsound", "message": format!("generated standalone text rejected by the reference: {e}"),
                "case": {"kind": "c05text", "texts": texts}}))
        }
    };
    for order in orders {
        let mut file = texts[order[0]].clone();
        for k in 1..=order.len() {
            let subset: Vec<combine::Standalone> = order[..k].iter().map(|i| parts[*i].clone()).collect();
            // (a file holding one type is that type's standalone text, whatever its layout)
            let expected = if subset.len() == 1 { texts[order[0]].clone() } else { combine::combine(note, &subset) };
            if file != expected {
                return Some(json!({
                    "signature": signature(texts),
                    "message": format!("after exporting {:?} in this order the file differs from the reference combiner", &order[..k]),
                    "case": {"kind": "c05text", "texts": texts, "order": order},
                    "expected": expected, "observed": file,
                }));
            }
            if k < order.len() {
                file = match apply_merge(note, &file, &texts[order[k]]) {
                    Ok(f) => f,
                    Err(e) => {
                        return Some(json!({"signature": "merge-panic", "message": e,
                            "case": {"kind": "c05text", "texts": texts, "order": order}}))
                    }
                };
            }
        }
    }
    None
}

