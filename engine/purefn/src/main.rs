//! E4: pure-function checks on the cfg(ts_rs_verif) hooks of the runtime crate.
//!   purefn c08     <tier> <seed> <report.json> [--esm] [--exclude sig,sig]
//!   purefn c05text <tier> <seed> <report.json> [--exclude sig,sig]
//!   purefn replay  <replay.json> <report.json> [--esm]
use std::{
    collections::{BTreeMap, HashSet},
    path::Path,
    sync::Mutex,
};

use serde_json::{json, Value};

mod c05core;
mod c05text;
mod c08;

#[derive(Default)]
pub struct Report {
    pub evaluations: u64,
    pub nontrivial: u64,
    pub excluded_known: u64,
    pub exhaustive_part: u64,
    pub labels: BTreeMap<String, u64>,
    pub samples: Vec<Value>,
    pub failures: Vec<Value>,
}

impl Report {
    pub fn label(&mut self, l: &str) {
        *self.labels.entry(l.to_string()).or_default() += 1;
    }
    /// keep at most two failures per signature
    pub fn push_failure(&mut self, f: Value) {
        let sig = f["signature"].as_str().unwrap_or("").to_string();
        if self.failures.iter().filter(|x| x["signature"].as_str().unwrap_or("") == sig).count() < 2 {
            self.failures.push(f);
        }
    }
    pub fn merge(&mut self, o: Report) {
        self.evaluations += o.evaluations;
        self.nontrivial += o.nontrivial;
        self.excluded_known += o.excluded_known;
        self.exhaustive_part += o.exhaustive_part;
        for (k, v) in o.labels {
            *self.labels.entry(k).or_default() += v;
        }
        for s in o.samples {
            if self.samples.len() < 12 {
                self.samples.push(s);
            }
        }
        for f in o.failures {
            self.push_failure(f);
        }
    }
    pub fn to_json(&self) -> Value {
        json!({
            "evaluations": self.evaluations,
            "nontrivial": self.nontrivial,
            "excluded_known": self.excluded_known,
            "exhaustive_part": self.exhaustive_part,
            "labels": self.labels,
            "samples": self.samples,
            "failures": self.failures,
        })
    }
}

/// the failure json is carried through proptest's error message
pub fn parse_failure(msg: &str) -> Value {
    if msg.starts_with("Test aborted") {
        return json!({"signature": "harness-abort", "message": msg});
    }
    if let Some(start) = msg.find('{') {
        let mut it = serde_json::Deserializer::from_str(&msg[start..]).into_iter::<Value>();
        if let Some(Ok(v)) = it.next() {
            return v;
        }
    }
    json!({"signature": "unparsed", "message": msg})
}

pub static DISTINCT: Mutex<Option<HashSet<u64>>> = Mutex::new(None);

pub fn hash64(s: &str) -> u64 {
    // FNV-1a
    let mut h: u64 = 0xcbf29ce484222325;
    for b in s.as_bytes() {
        h ^= *b as u64;
        h = h.wrapping_mul(0x100000001b3);
    }
    h
}

fn main() {
    let args: Vec<String> = std::env::args().collect();
    let esm = args.iter().any(|a| a == "--esm");
    assert_eq!(esm, cfg!(feature = "esm"), "binary/flag mismatch for import-esm");
    let exclude: Vec<String> = args
        .iter()
        .position(|a| a == "--exclude")
        .and_then(|i| args.get(i + 1))
        .map(|s| s.split(',').filter(|x| !x.is_empty()).map(|x| x.to_string()).collect())
        .unwrap_or_default();
    // quiet panics: they are caught and reported as failures
    std::panic::set_hook(Box::new(|_| {}));
    let mode = args.get(1).map(|s| s.as_str()).unwrap_or("");
    let report = match mode {
        "c08" => c08::run(&args[2], args[3].parse().unwrap(), esm, &exclude),
        "c05text" => c05text::run(&args[2], args[3].parse().unwrap(), &exclude),
        "replay" => {
            let case: Value = serde_json::from_str(&std::fs::read_to_string(&args[2]).unwrap()).unwrap();
            let mut r = Report::default();
            r.evaluations = 1;
            let res = match case["kind"].as_str() {
                Some("c08") => c08::replay(&case, esm),
                Some("c05text") | Some("c05files") => c05text::replay(&case),
                _ => Some(json!({"signature": "bad-replay", "message": "unknown replay kind"})),
            };
            if let Some(f) = res {
                r.failures.push(f);
            }
            r
        }
        _ => {
            eprintln!("unknown mode");
            std::process::exit(2);
        }
    };
    let out = if mode == "replay" { &args[3] } else { &args[4] };
    std::fs::write(Path::new(out), serde_json::to_string_pretty(&report.to_json()).unwrap()).unwrap();
}
