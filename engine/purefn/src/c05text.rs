//! C05 (text level) / C15 (merge part): `merge` folded over every permutation and prefix of a set
//! of standalone texts equals the reference combiner.
use std::{collections::BTreeSet, panic::catch_unwind};

use oracles::combine;
use proptest::{
    prelude::*,
    test_runner::{Config, RngAlgorithm, TestRng, TestRunner},
};
use serde_json::{json, Value};

use crate::{c08::seed_bytes, hash64, Report};

#[derive(Clone, Debug)]
pub struct Piece {
    pub name: String,
    pub generics: String,
    pub imports: Vec<(String, Vec<String>)>,
    pub doc: Option<Vec<String>>,
    pub body: String,
}

const NAMES: &[&str] = &[
    "A", "B", "Foo", "Foo2", "FooBar", "Foo_", "Bar", "a", "_x", "Zed", "Zed9", "Ünï", "Page", "Page2", "Pa", "$d", "Z",
];
const GENERICS: &[&str] = &["", "", "", "<T>", "<T, U>", "<T = number>"];
const MODS: &[&str] = &["./x", "./y", "../z/w", "./sub/deep", "./Foo", "../../up", "./a.b"];
const IMPORT_NAMES: &[&str] = &["X", "Y", "Dep", "DepA", "DepB", "Foo3", "Q", "from", "type"];
const DOC_LINES: &[&str] = &[
    " plain words",
    " export type Z = number;",
    "export type Q",
    " import type { Q } from \"./q\";",
    " a from b",
    " ends with brace }",
    " & { weird }",
    "",
    " quotes \" and ' and \\",
    " ünïcödé 中",
    " /* nested opener",
    " @deprecated use `Other`",
];
const BODIES: &[&str] = &[
    "number",
    "{ a: number, b: string, }",
    "\"A\" | \"B\"",
    "{ \"t\": \"X\" } & { y: number, }",
    "{ \n/**\n * field doc\n */\na: number, }",
    "{ \n/**\n * field doc\n */\na: number, \n/**\n * second\n */\nb: X | null, }",
    "Array<X>",
    "{ [key in string]?: Y }",
    "[number, string]",
];
// bodies that only go in when the corresponding known finding is not excluded
const BODY_EXPORT_WORD: &str = "{ \n/**\n * says export type Zzz here\n */\na: number, }";
const BODY_BLANK_LINE: &str = "{ \n/** first\n\n second */\na: number, }";

pub fn render(p: &Piece, note: &str) -> String {
    let mut s = String::from(note);
    for (m, names) in &p.imports {
        s.push_str(&format!("import type {{ {} }} from \"{}\";\n", names.join(", "), m));
    }
    s.push('\n');
    if let Some(doc) = &p.doc {
        if doc.len() == 1 && doc[0].contains('\n') {
            s.push_str(&format!("/**{}*/\n", doc[0]));
        } else {
            s.push_str("/**\n");
            for l in doc {
                s.push_str(" *");
                s.push_str(l);
                s.push('\n');
            }
            s.push_str(" */\n");
        }
    }
    s.push_str(&format!("export type {}{} = {};\n", p.name, p.generics, p.body));
    s
}

fn piece_strategy(exclude: &[String]) -> impl Strategy<Value = Piece> {
    let allow_word = !exclude.iter().any(|s| s == "export-type-in-field-doc");
    let allow_blank = !exclude.iter().any(|s| s == "blank-line-in-declaration");
    let allow_from = !exclude.iter().any(|s| s == "import-of-type-named-from");
    let imports = proptest::collection::btree_map(
        0..MODS.len(),
        proptest::collection::btree_set(0..IMPORT_NAMES.len(), 1..4),
        0..4,
    );
    let doc = prop_oneof![
        3 => Just(None),
        3 => proptest::collection::vec(0..DOC_LINES.len(), 1..4).prop_map(|v| Some(v.into_iter().map(|i| DOC_LINES[i].to_string()).collect::<Vec<_>>())),
        1 => Just(Some(vec!["\n * block doc\n * second line\n ".to_string()])),
        1 => Just(Some(vec![if allow_blank { "\n * block with blank\n\n * second line\n ".to_string() } else { "\n * block without blank\n * second line\n ".to_string() }])),
    ];
    let body = (0..BODIES.len() + 2).prop_map(move |i| {
        if i < BODIES.len() {
            BODIES[i].to_string()
        } else if i == BODIES.len() {
            if allow_word { BODY_EXPORT_WORD.to_string() } else { BODIES[4].to_string() }
        } else if allow_blank {
            BODY_BLANK_LINE.to_string()
        } else {
            BODIES[5].to_string()
        }
    });
    (0..NAMES.len(), 0..GENERICS.len(), imports, doc, body).prop_map(move |(n, g, imports, doc, body)| Piece {
        name: NAMES[n].to_string(),
        generics: GENERICS[g].to_string(),
        imports: imports
            .into_iter()
            .map(|(m, ns)| {
                let mut names: Vec<String> = ns
                    .into_iter()
                    .map(|i| IMPORT_NAMES[i].to_string())
                    .map(|n| if n == "from" && !allow_from { "fromage".to_string() } else { n })
                    .collect();
                names.sort();
                (MODS[m].to_string(), names)
            })
            .collect::<std::collections::BTreeMap<_, _>>()
            .into_iter()
            .collect(),
        doc,
        body,
    })
}

fn permutations(n: usize) -> Vec<Vec<usize>> {
    fn rec(cur: &mut Vec<usize>, used: &mut Vec<bool>, n: usize, out: &mut Vec<Vec<usize>>) {
        if cur.len() == n {
            out.push(cur.clone());
            return;
        }
        for i in 0..n {
            if !used[i] {
                used[i] = true;
                cur.push(i);
                rec(cur, used, n, out);
                cur.pop();
                used[i] = false;
            }
        }
    }
    let mut out = vec![];
    rec(&mut vec![], &mut vec![false; n], n, &mut out);
    out
}

/// mirror of `export_and_merge` on strings: write the merged buffer at offset NOTE.len() without
/// truncating
fn apply_merge(note: &str, file: &str, new: &str) -> Result<String, String> {
    let (f, n) = (file.to_string(), new.to_string());
    let merged = catch_unwind(move || ts_rs::verif_hooks::merge(f, n)).map_err(|_| "merge panicked".to_string())?;
    let mut out = format!("{note}{merged}");
    if out.len() < file.len() {
        out.push_str(&file[out.len()..]);
    }
    Ok(out)
}

fn signature(texts: &[String]) -> &'static str {
    // generator-side twins of the known findings
    for t in texts {
        let decl = t.splitn(2, "\n\n").nth(1).unwrap_or("");
        if decl.trim_end_matches('\n').contains("\n\n") {
            return "blank-line-in-declaration";
        }
        if decl.matches("export type ").count() > 1 {
            return "export-type-in-field-doc";
        }
    }
    if texts.iter().any(|t| t.contains("{ from") || t.contains(", from")) {
        return "import-of-type-named-from";
    }
    "merge-differs-from-reference"
}

/// check one set of texts in the given orders; returns failure json
pub fn check_set(note: &str, texts: &[String], orders: &[Vec<usize>]) -> Option<Value> {
    let parts: Result<Vec<combine::Standalone>, String> = texts.iter().map(|t| combine::parse_standalone(t, note)).collect();
    let parts = match parts {
        Ok(p) => p,
        Err(e) => {
            return Some(json!({"signature": "generator-unsound", "message": format!("generated standalone text rejected by the reference: {e}"),
                "case": {"kind": "c05text", "texts": texts}}))
        }
    };
    for order in orders {
        let mut file = texts[order[0]].clone();
        for k in 1..=order.len() {
            let subset: Vec<combine::Standalone> = order[..k].iter().map(|i| parts[*i].clone()).collect();
            let expected = combine::combine(note, &subset);
            if file != expected {
                return Some(json!({
                    "signature": signature(texts),
                    "message": format!("after exporting {:?} in this order the file differs from the reference combiner", &order[..k]),
                    "case": {"kind": "c05text", "texts": texts, "order": order},
                    "expected": expected, "observed": file,
                }));
            }
            if k < order.len() {
                file = match apply_merge(note, &file, &texts[order[k]]) {
                    Ok(f) => f,
                    Err(e) => {
                        return Some(json!({"signature": "merge-panic", "message": e,
                            "case": {"kind": "c05text", "texts": texts, "order": order}}))
                    }
                };
            }
        }
    }
    None
}

pub fn run(tier: &str, seed: u64, exclude: &[String]) -> Report {
    let note = ts_rs::verif_hooks::note();
    let cases = if tier == "thorough" { 60_000 } else { 6_000 };
    let strat = proptest::collection::vec(piece_strategy(exclude), 2..6).prop_map(|mut v| {
        // distinct names within one file
        let mut seen = BTreeSet::new();
        v.retain(|p| seen.insert(p.name.clone()));
        v
    });
    let mut runner = TestRunner::new_with_rng(
        Config { cases, failure_persistence: None, max_shrink_iters: 3000, ..Config::default() },
        TestRng::from_seed(RngAlgorithm::ChaCha, &seed_bytes(seed ^ 0xC05)),
    );
    let r = std::cell::RefCell::new(Report::default());
    let distinct = std::cell::RefCell::new(std::collections::HashSet::new());
    let failed = std::cell::Cell::new(false);
    let perms: Vec<Vec<Vec<usize>>> = (0..6).map(permutations).collect();
    let result = runner.run(&strat, |pieces| {
        if pieces.len() < 2 {
            return Ok(());
        }
        let texts: Vec<String> = pieces.iter().map(|p| render(p, note)).collect();
        let n = texts.len();
        // all permutations up to 4 elements, 30 spread ones for 5
        let orders: Vec<Vec<usize>> = if n <= 4 { perms[n].clone() } else { perms[n].iter().step_by(4).cloned().collect() };
        if !failed.get() {
            let mut rr = r.borrow_mut();
            rr.evaluations += orders.len() as u64;
            let with_doc = pieces.iter().any(|p| p.doc.is_some() || p.body.contains("/**"));
            let mods: Vec<&String> = pieces.iter().flat_map(|p| p.imports.iter().map(|i| &i.0)).collect();
            let overlapping = mods.len() != mods.iter().collect::<BTreeSet<_>>().len();
            let prefix_names = pieces.iter().any(|a| pieces.iter().any(|b| a.name != b.name && b.name.starts_with(&a.name)));
            if n >= 3 && (with_doc || overlapping) && distinct.borrow_mut().insert(hash64(&texts.join("\u{0}"))) {
                rr.nontrivial += 1;
            }
            rr.label(&format!("set_size_{n}"));
            if with_doc {
                rr.label("with_doc");
            }
            if overlapping {
                rr.label("overlapping_import_modules");
            }
            if prefix_names {
                rr.label("names_prefix_of_one_another");
            }
            if pieces.iter().any(|p| !p.generics.is_empty()) {
                rr.label("generic_decl");
            }
            if rr.samples.len() < 3 && rr.evaluations % 97 == 0 && n >= 3 {
                rr.samples.push(json!({"texts": texts, "orders_checked": orders.len()}));
            }
        }
        match check_set(note, &texts, &orders) {
            None => Ok(()),
            Some(f) => {
                failed.set(true);
                Err(TestCaseError::fail(f.to_string()))
            }
        }
    });
    if let Err(e) = result {
        let f = crate::parse_failure(&e.to_string());
        r.borrow_mut().push_failure(f);
    }
    r.into_inner()
}

pub fn replay(case: &Value) -> Option<Value> {
    let note = ts_rs::verif_hooks::note();
    let texts: Vec<String> = case["texts"].as_array()?.iter().map(|t| t.as_str().unwrap().to_string()).collect();
    let orders: Vec<Vec<usize>> = match case["order"].as_array() {
        Some(o) => vec![o.iter().map(|x| x.as_u64().unwrap() as usize).collect()],
        None => permutations(texts.len()),
    };
    check_set(note, &texts, &orders)
}