//! C05 (text level) / C15 (merge part): `merge` folded over every permutation and prefix of a set
//! of standalone texts equals the reference combiner.
use std::collections::BTreeSet;

use proptest::{
    prelude::*,
    test_runner::{Config, RngAlgorithm, TestRng, TestRunner},
};
use serde_json::{json, Value};

pub use crate::c05core::*;
use crate::{c08::seed_bytes, hash64, Report};

fn piece_strategy(exclude: &[String]) -> impl Strategy<Value = Piece> {
    let allow_word = !exclude.iter().any(|s| s == "export-type-in-field-doc");
    let allow_blank = !exclude.iter().any(|s| s == "blank-line-in-declaration");
    let allow_from = !exclude.iter().any(|s| s == "import-of-type-named-from");
    let imports = proptest::collection::btree_map(
        0..MODS.len(),
        prop_oneof![4 => proptest::collection::btree_set(0..IMPORT_NAMES.len(), 1..4), 1 => proptest::collection::btree_set(0..IMPORT_NAMES.len(), 8..16)],
        0..4,
    );
    let doc = prop_oneof![
        3 => Just(None),
        3 => proptest::collection::vec(0..DOC_LINES.len(), 1..4).prop_map(|v| Some(v.into_iter().map(|i| DOC_LINES[i].to_string()).collect::<Vec<_>>())),
        2 => (0..RAW_BLOCK_DOCS.len()).prop_map(|i| Some(vec![RAW_BLOCK_DOCS[i].to_string()])),
        1 => Just(Some(vec![if allow_blank { "\n * block with blank\n\n * second line\n ".to_string() } else { "\n * block without blank\n * second line\n ".to_string() }])),
    ];
    let body = (0..BODIES.len() + 2).prop_map(move |i| {
        if i < BODIES.len() {
            BODIES[i].to_string()
        } else if i == BODIES.len() {
            if allow_word { BODY_EXPORT_WORD.to_string() } else { BODIES[4].to_string() }
        } else if allow_blank {
            BODY_BLANK_LINE.to_string()
        } else {
            BODIES[5].to_string()
        }
    });
    (0..NAMES.len(), 0..GENERICS.len(), imports, doc, body).prop_map(move |(n, g, imports, doc, body)| Piece {
        name: NAMES[n].to_string(),
        generics: GENERICS[g].to_string(),
        imports: imports
            .into_iter()
            .map(|(m, ns)| {
                let mut names: Vec<String> = ns
                    .into_iter()
                    .map(|i| IMPORT_NAMES[i].to_string())
                    .map(|n| if n == "from" && !allow_from { "fromage".to_string() } else { n })
                    .collect();
                names.sort();
                (MODS[m].to_string(), names)
            })
            .collect::<std::collections::BTreeMap<_, _>>()
            .into_iter()
            .collect(),
        doc,
        body,
    })
}

pub fn run(tier: &str, seed: u64, exclude: &[String]) -> Report {
    let note = ts_rs::verif_hooks::note();
    let cases = if tier == "thorough" { 60_000 } else { 6_000 };
    let strat = proptest::collection::vec(piece_strategy(exclude), 2..6).prop_map(|mut v| {
        // distinct names within one file
        let mut seen = BTreeSet::new();
        v.retain(|p| seen.insert(p.name.clone()));
        v
    });
    let mut runner = TestRunner::new_with_rng(
        Config { cases, failure_persistence: None, max_shrink_iters: 3000, ..Config::default() },
        TestRng::from_seed(RngAlgorithm::ChaCha, &seed_bytes(seed ^ 0xC05)),
    );
    let r = std::cell::RefCell::new(Report::default());
    let distinct = std::cell::RefCell::new(std::collections::HashSet::new());
    let failed = std::cell::Cell::new(false);
    let perms: Vec<Vec<Vec<usize>>> = (0..6).map(permutations).collect();
    let file_cases = std::cell::Cell::new(0u64);
    let file_budget: u64 = if tier == "thorough" { 6_000 } else { 600 };
    let file_dir = std::path::PathBuf::from(std::env::var("VERIF_WORK").unwrap_or_else(|_| ".".into())).join(format!("c05files-{}", std::process::id()));
    std::fs::create_dir_all(&file_dir).ok();
    let result = runner.run(&strat, |pieces| {
        if pieces.len() < 2 {
            return Ok(());
        }
        let texts: Vec<String> = pieces.iter().map(|p| render(p, note)).collect();
        let n = texts.len();
        // all permutations up to 4 elements, 30 spread ones for 5
        let orders: Vec<Vec<usize>> = if n <= 4 { perms[n].clone() } else { perms[n].iter().step_by(4).cloned().collect() };
        if !failed.get() {
            let mut rr = r.borrow_mut();
            rr.evaluations += orders.len() as u64;
            let with_doc = pieces.iter().any(|p| p.doc.is_some() || p.body.contains("/**"));
            let mods: Vec<&String> = pieces.iter().flat_map(|p| p.imports.iter().map(|i| &i.0)).collect();
            let overlapping = mods.len() != mods.iter().collect::<BTreeSet<_>>().len();
            let prefix_names = pieces.iter().any(|a| pieces.iter().any(|b| a.name != b.name && b.name.starts_with(&a.name)));
            if n >= 3 && (with_doc || overlapping) && distinct.borrow_mut().insert(hash64(&texts.join("\u{0}"))) {
                rr.nontrivial += 1;
            }
            rr.label(&format!("set_size_{n}"));
            if with_doc {
                rr.label("with_doc");
            }
            if overlapping {
                rr.label("overlapping_import_modules");
            }
            if prefix_names {
                rr.label("names_prefix_of_one_another");
            }
            if pieces.iter().any(|p| !p.generics.is_empty()) {
                rr.label("generic_decl");
            }
            if rr.samples.len() < 3 && rr.evaluations % 97 == 0 && n >= 3 {
                rr.samples.push(json!({"texts": texts, "orders_checked": orders.len()}));
            }
        }
        // a part of the cases also through the code that really writes the file
        if !failed.get() && file_cases.get() < file_budget {
            file_cases.set(file_cases.get() + 1);
            let names: Vec<String> = pieces.iter().map(|p| p.name.clone()).collect();
            let two: Vec<Vec<usize>> = vec![orders[0].clone(), orders[orders.len() - 1].clone()];
            r.borrow_mut().evaluations += 2;
            if let Some(f) = check_set_files(note, &texts, &names, &two, &file_dir) {
                failed.set(true);
                return Err(TestCaseError::fail(f.to_string()));
            }
        }
        match check_set(note, &texts, &orders) {
            None => Ok(()),
            Some(f) => {
                failed.set(true);
                Err(TestCaseError::fail(f.to_string()))
            }
        }
    });
    std::fs::remove_dir_all(&file_dir).ok();
    r.borrow_mut().labels.insert("cases_through_the_file_writing_code".into(), file_cases.get());
    if let Err(e) = result {
        let f = crate::parse_failure(&e.to_string());
        r.borrow_mut().push_failure(f);
    }
    r.into_inner()
}

pub fn replay(case: &Value) -> Option<Value> {
    let note = ts_rs::verif_hooks::note();
    let texts: Vec<String> = case["texts"].as_array()?.iter().map(|t| t.as_str().unwrap().to_string()).collect();
    let orders: Vec<Vec<usize>> = match case["order"].as_array() {
        Some(o) => vec![o.iter().map(|x| x.as_u64().unwrap() as usize).collect()],
        None => permutations(texts.len()),
    };
    if case["kind"] == "c05files" {
        let names: Vec<String> = case["names"].as_array()?.iter().map(|t| t.as_str().unwrap().to_string()).collect();
        let dir = std::path::PathBuf::from(std::env::var("VERIF_WORK").unwrap_or_else(|_| ".".into())).join(format!("c05files-replay-{}", std::process::id()));
        std::fs::create_dir_all(&dir).ok();
        let f = check_set_files(note, &texts, &names, &orders, &dir);
        std::fs::remove_dir_all(&dir).ok();
        return f;
    }
    check_set(note, &texts, &orders)
}