//! C08: import specifiers resolve to the dependency's file, for every path pair.
use std::{panic::catch_unwind, path::Path};

use oracles::paths::{self, SpecVerdict};
use proptest::{
    prelude::*,
    test_runner::{Config, RngAlgorithm, TestRng, TestRunner},
};
use serde_json::{json, Value};

use crate::{hash64, Report};

const DIRS: &[&str] = &["a", "b", "a.b", "ts", "x.ts", "foo.d", ".", ".."];
const FILES: &[&str] = &["A.ts", "b.ts", "ts.ts", "x.d.ts", "a.b.ts", "x.ts.ts", "schema.v2", "noext"];

fn cwd_setup() -> String {
    let work = std::env::var("VERIF_WORK").unwrap_or_else(|_| "/verif/work".into());
    let dir = format!("{work}/c08cwd/p/q");
    std::fs::create_dir_all(&dir).unwrap();
    std::env::set_current_dir(&dir).unwrap();
    std::env::current_dir().unwrap().to_string_lossy().into_owned()
}

fn file_name(p: &str) -> &str {
    p.rsplit('/').next().unwrap_or(p)
}

/// evaluate one pair; `None` = property holds
pub fn eval(cwd: &str, from: &str, to: &str, esm: bool) -> Option<Value> {
    let (f, t) = (from.to_string(), to.to_string());
    let res = catch_unwind(move || ts_rs::verif_hooks::import_path(Path::new(&f), Path::new(&t)));
    let nf = paths::normalize(cwd, from);
    let nt = paths::normalize(cwd, to);
    let fail = |sig: &str, msg: String, got: Value| {
        Some(json!({"signature": sig, "message": msg,
            "case": {"kind": "c08", "cwd": cwd, "from": from, "to": to, "esm": esm}, "observed": got}))
    };
    match res {
        Err(_) => fail("panic", "import_path panicked".into(), Value::Null),
        Ok(Err(e)) => {
            if nf.is_some() && nt.is_some() {
                fail("unexpected-err", format!("import_path returned Err({e}) for paths that stay below the root"), Value::Null)
            } else {
                None
            }
        }
        Ok(Ok(spec)) => {
            let (Some(nf), Some(nt)) = (nf, nt) else {
                return fail(
                    "root-pop",
                    "a path climbs above the file system root; expected an error, got a specifier".into(),
                    json!(spec),
                );
            };
            let to_file = file_name(to);
            if to_file.ends_with(".ts") {
                match paths::check_specifier(cwd, from, to, &spec, esm) {
                    SpecVerdict::Ok => None,
                    SpecVerdict::Bad(m) => {
                        let sig = if to_file.ends_with(".ts.ts") { "ts-ts-suffix" } else { "wrong-specifier" };
                        fail(sig, m, json!(spec))
                    }
                }
            } else {
                // file names without the .ts extension: TypeScript itself would not find them; the
                // weaker requirement is that the specifier spells the path of the file.
                if !(spec.starts_with("./") || spec.starts_with("../")) || spec.contains('\\') {
                    return fail("wrong-specifier", format!("specifier {spec:?} not relative / contains backslash"), json!(spec));
                }
                let bare = if esm {
                    match spec.strip_suffix(".js") {
                        Some(b) => b.to_string(),
                        None => return fail("wrong-specifier", format!("specifier {spec:?} must end in .js"), json!(spec)),
                    }
                } else {
                    spec.clone()
                };
                match paths::resolve_spec(&nf, &bare) {
                    Some(r) if r == nt => None,
                    other => fail(
                        "wrong-specifier",
                        format!("specifier {spec:?} written in {} denotes {:?}, dependency is {}", paths::join(&nf), other.map(|r| paths::join(&r)), paths::join(&nt)),
                        json!(spec),
                    ),
                }
            }
        }
    }
}

fn nontrivial(from: &str, to: &str) -> bool {
    let dir = |p: &str| p.rsplit_once('/').map(|x| x.0.to_string()).unwrap_or_default();
    dir(from) != dir(to)
        || from.split('/').chain(to.split('/')).any(|c| c == "." || c == "..")
        || dir(from).contains('.')
        || dir(to).contains('.')
}

fn all_paths(depth: usize, files: &[&str]) -> Vec<String> {
    let mut dirs: Vec<Vec<&str>> = vec![vec![]];
    let mut frontier: Vec<Vec<&str>> = vec![vec![]];
    for _ in 0..depth {
        let mut next = vec![];
        for d in &frontier {
            for c in DIRS {
                let mut n = d.clone();
                n.push(*c);
                next.push(n);
            }
        }
        dirs.extend(next.iter().cloned());
        frontier = next;
    }
    let mut out = vec![];
    for d in &dirs {
        for f in files {
            let mut p = d.join("/");
            if !p.is_empty() {
                p.push('/');
            }
            p.push_str(f);
            out.push(p);
        }
    }
    out
}

fn excluded(exclude: &[String], from: &str, to: &str, cwd: &str) -> bool {
    // a file cannot also be a directory on the way to the other file: such a pair cannot exist
    // in one file system and is outside the domain
    if let (Some(f), Some(t)) = (paths::normalize(cwd, from), paths::normalize(cwd, to)) {
        if f != t && (f.starts_with(&t) || t.starts_with(&f)) {
            return true;
        }
    }
    (exclude.iter().any(|s| s == "ts-ts-suffix") && file_name(to).ends_with(".ts.ts"))
        || (exclude.iter().any(|s| s == "root-pop")
            && (paths::normalize(cwd, from).is_none() || paths::normalize(cwd, to).is_none()))
}

pub fn run(tier: &str, seed: u64, esm: bool, exclude: &[String]) -> Report {
    let cwd = cwd_setup();
    let work = std::env::var("VERIF_WORK").unwrap_or_else(|_| "/verif/work".into());
    let depth = if tier == "thorough" { 3 } else { 2 };
    let climb = "../".repeat(cwd.matches('/').count());
    let bases: Vec<String> = vec![
        "bindings".into(),
        "./x/../bindings/.".into(),
        format!("{work}/c08abs/out"),
        "../..".into(),
        format!("{climb}r"), // exactly at the root
    ];
    let from_paths = all_paths(depth, &["A.ts", "x.d.ts"]);
    let to_paths = all_paths(depth, FILES);
    let mut total = Report::default();
    let nthreads = 16usize;
    let reports: Vec<Report> = std::thread::scope(|s| {
        let handles: Vec<_> = (0..nthreads)
            .map(|ti| {
                let (from_paths, to_paths, bases, cwd) = (&from_paths, &to_paths, &bases, &cwd);
                s.spawn(move || {
                    let mut r = Report::default();
                    for (fi, f) in from_paths.iter().enumerate() {
                        if fi % nthreads != ti {
                            continue;
                        }
                        for base in bases {
                            let from = format!("{base}/{f}");
                            for (tidx, t) in to_paths.iter().enumerate() {
                                let to = format!("{base}/{t}");
                                if excluded(exclude, &from, &to, cwd) {
                                    r.excluded_known += 1;
                                    continue;
                                }
                                r.evaluations += 1;
                                r.exhaustive_part += 1;
                                let nt = nontrivial(f, t);
                                if nt {
                                    r.nontrivial += 1;
                                }
                                if nt && (fi * 7919 + tidx) % 20_011 == 0 && r.samples.len() < 1 {
                                    r.samples.push(json!({"from": from, "to": to, "cwd": cwd,
                                        "specifier": ts_rs::verif_hooks::import_path(Path::new(&from), Path::new(&to)).map_err(|e| e.to_string())}));
                                }
                                if let Some(fl) = eval(cwd, &from, &to, esm) {
                                    r.push_failure(fl);
                                }
                            }
                        }
                    }
                    r
                })
            })
            .collect();
        handles.into_iter().map(|h| h.join().unwrap()).collect()
    });
    for r in reports {
        total.merge(r);
    }
    total.label(&format!("exhaustive_depth_{depth}"));

    // mixed bases: importer and dependency under different spellings of the same base
    // (and of different bases), still exhaustive over depth-1 paths
    let small_from = all_paths(1, &["A.ts"]);
    let small_to = all_paths(1, FILES);
    for b1 in &bases {
        for b2 in &bases {
            if b1 == b2 {
                continue;
            }
            for f in &small_from {
                for t in &small_to {
                    let (from, to) = (format!("{b1}/{f}"), format!("{b2}/{t}"));
                    if excluded(exclude, &from, &to, &cwd) {
                        total.excluded_known += 1;
                        continue;
                    }
                    total.evaluations += 1;
                    total.nontrivial += 1;
                    total.exhaustive_part += 1;
                    if let Some(fl) = eval(&cwd, &from, &to, esm) {
                        total.push_failure(fl);
                    }
                }
            }
        }
    }

    // random part: odd component strings, deeper paths
    let cases = if tier == "thorough" { 400_000 } else { 40_000 };
    let comp = prop_oneof![
        4 => "[a-z]{1,3}",
        2 => "[A-Za-z0-9_.-]{1,6}".prop_filter("dot segments are generated separately", |s| s != "." && s != ".."),
        1 => Just("..".to_string()),
        1 => Just(".".to_string()),
        1 => "[ a-zäöü中$.]{1,5}".prop_filter("no dot segment", |s| s != "." && s != ".."),
        1 => Just("ts".to_string()),
        1 => "[a-z]{1,2}\\.ts",
    ];
    let stem = prop_oneof![3 => "[A-Za-z]{1,4}", 1 => "[A-Za-z0-9_. -]{1,6}[a-z]", 1 => "[a-z]\\.d", 1 => Just("ts".to_string())];
    let path = (proptest::collection::vec(comp, 0..6), stem).prop_map(|(d, s)| {
        let mut p = d.join("/");
        if !p.is_empty() {
            p.push('/');
        }
        p.push_str(&s);
        p.push_str(".ts");
        p
    });
    // shared prefix makes "common prefix then divergence" frequent
    let strat = (proptest::collection::vec("[a-c]", 0..3), path.clone(), path, 0..bases.len(), 0..bases.len(), any::<bool>());
    let mut runner = TestRunner::new_with_rng(
        Config { cases, failure_persistence: None, max_shrink_iters: 2000, ..Config::default() },
        TestRng::from_seed(RngAlgorithm::ChaCha, &seed_bytes(seed)),
    );
    let r = std::cell::RefCell::new(Report::default());
    let distinct = std::cell::RefCell::new(std::collections::HashSet::new());
    let failed = std::cell::Cell::new(false);
    let result = runner.run(&strat, |(prefix, f, t, b1, b2, same_base)| {
        let pre = if prefix.is_empty() { String::new() } else { format!("{}/", prefix.join("/")) };
        let b2 = if same_base { b1 } else { b2 };
        let from = format!("{}/{pre}{f}", bases[b1]);
        let to = format!("{}/{pre}{t}", bases[b2]);
        if excluded(exclude, &from, &to, &cwd) {
            if !failed.get() {
                r.borrow_mut().excluded_known += 1;
            }
            return Ok(());
        }
        if !failed.get() {
            let mut rr = r.borrow_mut();
            rr.evaluations += 1;
            if nontrivial(&from, &to) && distinct.borrow_mut().insert(hash64(&format!("{from}\u{0}{to}"))) {
                rr.nontrivial += 1;
            }
            if rr.samples.len() < 4 && rr.evaluations % 9973 == 1 {
                rr.samples.push(json!({"from": from, "to": to,
                    "specifier": ts_rs::verif_hooks::import_path(Path::new(&from), Path::new(&to)).map_err(|e| e.to_string())}));
            }
        }
        match eval(&cwd, &from, &to, esm) {
            None => Ok(()),
            Some(fl) => {
                failed.set(true);
                Err(TestCaseError::fail(fl.to_string()))
            }
        }
    });
    if let Err(e) = result {
        let f = crate::parse_failure(&e.to_string());
        r.borrow_mut().push_failure(f);
    }
    r.borrow_mut().label("random");
    total.merge(r.into_inner());
    total
}

pub fn seed_bytes(seed: u64) -> [u8; 32] {
    let mut b = [0u8; 32];
    for i in 0..4 {
        b[i * 8..i * 8 + 8].copy_from_slice(&(seed.wrapping_add(i as u64).wrapping_mul(0x9E3779B97F4A7C15)).to_le_bytes());
    }
    b
}

pub fn replay(case: &Value, esm: bool) -> Option<Value> {
    let cwd = case["cwd"].as_str().unwrap();
    std::fs::create_dir_all(cwd).ok();
    std::env::set_current_dir(cwd).ok()?;
    if case["esm"].as_bool().unwrap_or(false) != esm {
        return Some(json!({"signature": "replay-needs-other-build", "message": "esm flag mismatch"}));
    }
    eval(cwd, case["from"].as_str().unwrap(), case["to"].as_str().unwrap(), esm)
}
