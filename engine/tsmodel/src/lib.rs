//! An independent reading of the TypeScript that ts-rs emits.
//!
//! * `parse_module` – swc front end, lowered into a small type model (`Ty`).
//! * `member`       – denotation of a `Ty` as a set of JSON values (exact objects, `bigint` = JSON
//!                    integer, `?:` = may be absent).
//! * `witnesses` / `witness_from_tape` – type directed enumeration / sampling of members.
//! * `distinguish`  – search for a JSON value that is in one type and not in the other.
//!
//! Nothing in here shares code or assumptions with ts-rs: no output of ts-rs is ever interpreted
//! by splitting strings.

use std::collections::{BTreeMap, BTreeSet, HashMap};

use serde_json::Value;

mod parse;
pub use parse::{parse_module, parse_type};

#[derive(Clone, Debug, PartialEq, Eq, Hash, PartialOrd, Ord)]
pub enum Ty {
    Number,
    BigInt,
    String,
    Boolean,
    Null,
    Undefined,
    Never,
    Any,
    Unknown,
    Lit(String),
    NumLit(String),
    BoolLit(bool),
    Array(Box<Ty>),
    Tuple(Vec<Ty>),
    Union(Vec<Ty>),
    Inter(Vec<Ty>),
    Obj(Obj),
    Ref(String, Vec<Ty>),
}

#[derive(Clone, Debug, PartialEq, Eq, Hash, PartialOrd, Ord, Default)]
pub struct Obj {
    pub props: Vec<Prop>,
    /// mapped types / index signatures: (key type, value type, optional)
    pub index: Vec<(Ty, Ty, bool)>,
}

#[derive(Clone, Debug, PartialEq, Eq, Hash, PartialOrd, Ord)]
pub struct Prop {
    pub key: String,
    pub optional: bool,
    pub ty: Ty,
    /// was the key written as a quoted string
    pub quoted: bool,
    /// comments immediately in front of the property (swc leading comments)
    pub docs: Vec<Comment>,
    /// byte offset of the property in the source text
    pub lo: u32,
}

#[derive(Clone, Debug, PartialEq, Eq, Hash, PartialOrd, Ord)]
pub struct Comment {
    pub block: bool,
    pub text: String,
    pub lo: u32,
    pub hi: u32,
}

#[derive(Clone, Debug)]
pub struct Decl {
    pub name: String,
    /// (name, default)
    pub params: Vec<(String, Option<Ty>)>,
    pub body: Ty,
    pub exported: bool,
    pub docs: Vec<Comment>,
    /// byte offsets of the whole item (`export type .. ;`)
    pub lo: u32,
    pub hi: u32,
}

#[derive(Clone, Debug)]
pub struct Import {
    pub names: Vec<String>,
    pub spec: String,
    pub type_only: bool,
    pub lo: u32,
    pub hi: u32,
}

#[derive(Clone, Debug)]
pub enum ItemKind {
    Import,
    TypeAlias,
    Other(String),
}

#[derive(Clone, Debug, Default)]
pub struct Module {
    pub imports: Vec<Import>,
    pub decls: Vec<Decl>,
    /// kinds of the module items in source order
    pub items: Vec<ItemKind>,
    /// all comments of the file (sorted by position)
    pub comments: Vec<Comment>,
}

pub type Env = HashMap<String, Decl>;

pub fn env_from_decls<'a>(decls: impl IntoIterator<Item = &'a Decl>) -> Env {
    decls.into_iter().map(|d| (d.name.clone(), d.clone())).collect()
}

/// names that are part of TypeScript's standard library and therefore never imported
pub const BUILTINS: &[&str] = &[
    "Array", "Record", "Partial", "Required", "Readonly", "Pick", "Omit", "Exclude", "Extract",
    "NonNullable", "Date", "Map", "Set", "Promise", "ReadonlyArray", "Uint8Array", "String",
    "Number", "Boolean", "Object", "Function", "Symbol", "BigInt",
];

// ------------------------------------------------------------------------------------------
// free names
// ------------------------------------------------------------------------------------------

pub fn collect_refs(ty: &Ty, out: &mut BTreeSet<String>) {
    match ty {
        Ty::Array(t) => collect_refs(t, out),
        Ty::Tuple(ts) | Ty::Union(ts) | Ty::Inter(ts) => ts.iter().for_each(|t| collect_refs(t, out)),
        Ty::Obj(o) => {
            for p in &o.props {
                collect_refs(&p.ty, out);
            }
            for (k, v, _) in &o.index {
                collect_refs(k, out);
                collect_refs(v, out);
            }
        }
        Ty::Ref(n, args) => {
            out.insert(n.clone());
            args.iter().for_each(|t| collect_refs(t, out));
        }
        _ => (),
    }
}

/// identifiers in type position of a declaration, minus its own bound parameters, minus
/// TypeScript built-ins. (The declared name itself is kept if it is used recursively.)
pub fn free_type_names(decl: &Decl) -> BTreeSet<String> {
    let mut out = BTreeSet::new();
    collect_refs(&decl.body, &mut out);
    for (_, d) in &decl.params {
        if let Some(d) = d {
            collect_refs(d, &mut out);
        }
    }
    for (p, _) in &decl.params {
        out.remove(p);
    }
    for b in BUILTINS {
        out.remove(*b);
    }
    out
}

// ------------------------------------------------------------------------------------------
// substitution / unfolding
// ------------------------------------------------------------------------------------------

pub fn subst(ty: &Ty, map: &HashMap<String, Ty>) -> Ty {
    if map.is_empty() {
        return ty.clone();
    }
    match ty {
        Ty::Array(t) => Ty::Array(Box::new(subst(t, map))),
        Ty::Tuple(ts) => Ty::Tuple(ts.iter().map(|t| subst(t, map)).collect()),
        Ty::Union(ts) => Ty::Union(ts.iter().map(|t| subst(t, map)).collect()),
        Ty::Inter(ts) => Ty::Inter(ts.iter().map(|t| subst(t, map)).collect()),
        Ty::Obj(o) => Ty::Obj(Obj {
            props: o
                .props
                .iter()
                .map(|p| Prop { ty: subst(&p.ty, map), ..p.clone() })
                .collect(),
            index: o
                .index
                .iter()
                .map(|(k, v, opt)| (subst(k, map), subst(v, map), *opt))
                .collect(),
        }),
        Ty::Ref(n, args) => {
            if args.is_empty() {
                if let Some(t) = map.get(n) {
                    return t.clone();
                }
            }
            Ty::Ref(n.clone(), args.iter().map(|t| subst(t, map)).collect())
        }
        other => other.clone(),
    }
}

/// Unfold a reference one step. `None` if the name is unknown or a parameter without default is
/// missing.
pub fn unfold(name: &str, args: &[Ty], env: &Env) -> Option<Ty> {
    let decl = env.get(name)?;
    if args.len() > decl.params.len() {
        return None;
    }
    let mut map = HashMap::new();
    for (i, (p, default)) in decl.params.iter().enumerate() {
        let arg = match args.get(i) {
            Some(a) => a.clone(),
            None => subst(default.as_ref()?, &map),
        };
        map.insert(p.clone(), arg);
    }
    Some(subst(&decl.body, &map))
}

// ------------------------------------------------------------------------------------------
// membership
// ------------------------------------------------------------------------------------------

#[derive(Clone, Debug, Default)]
struct Shape {
    /// key -> (all types that must hold, optional)
    props: BTreeMap<String, (Vec<Ty>, bool)>,
    index: Vec<(Ty, Ty, bool)>,
    /// an `any`/`unknown` took part in the intersection
    open: bool,
}

#[derive(Clone, Debug)]
enum Alt {
    Shape(Shape),
    /// a non-object alternative; a conjunction of types
    Other(Vec<Ty>),
}

fn shape_of(o: &Obj) -> Shape {
    let mut s = Shape::default();
    for p in &o.props {
        let e = s.props.entry(p.key.clone()).or_insert((vec![], true));
        e.0.push(p.ty.clone());
        e.1 = e.1 && p.optional;
    }
    s.index = o.index.clone();
    s
}

fn merge_shapes(a: &Shape, b: &Shape) -> Shape {
    let mut s = a.clone();
    for (k, (tys, opt)) in &b.props {
        match s.props.get_mut(k) {
            Some(e) => {
                e.0.extend(tys.iter().cloned());
                e.1 = e.1 && *opt;
            }
            None => {
                s.props.insert(k.clone(), (tys.clone(), *opt));
            }
        }
    }
    s.index.extend(b.index.iter().cloned());
    s.open = a.open || b.open;
    s
}

const MAX_ALTS: usize = 4096;

fn alts(ty: &Ty, env: &Env, fuel: u32) -> Vec<Alt> {
    if fuel == 0 {
        return vec![];
    }
    match ty {
        Ty::Obj(o) => vec![Alt::Shape(shape_of(o))],
        Ty::Union(ts) => ts.iter().flat_map(|t| alts(t, env, fuel - 1)).collect(),
        Ty::Ref(n, args) => match unfold(n, args, env) {
            Some(t) => alts(&t, env, fuel - 1),
            None => vec![Alt::Other(vec![ty.clone()])],
        },
        Ty::Inter(ts) => {
            let mut acc: Vec<Alt> = vec![Alt::Other(vec![])];
            for t in ts {
                let next = alts(t, env, fuel - 1);
                let mut out = Vec::new();
                for a in &acc {
                    for b in &next {
                        match (a, b) {
                            (Alt::Shape(x), Alt::Shape(y)) => out.push(Alt::Shape(merge_shapes(x, y))),
                            (Alt::Other(x), Alt::Other(y)) => {
                                let mut v = x.clone();
                                v.extend(y.iter().cloned());
                                out.push(Alt::Other(v))
                            }
                            (Alt::Shape(s), Alt::Other(o)) | (Alt::Other(o), Alt::Shape(s)) => {
                                if o.is_empty() {
                                    out.push(Alt::Shape(s.clone()));
                                } else if o.iter().all(|t| matches!(t, Ty::Any | Ty::Unknown)) {
                                    let mut s = s.clone();
                                    s.open = true;
                                    out.push(Alt::Shape(s));
                                }
                                // object & non-object = never
                            }
                        }
                        if out.len() > MAX_ALTS {
                            break;
                        }
                    }
                }
                acc = out;
            }
            acc
        }
        other => vec![Alt::Other(vec![other.clone()])],
    }
}

fn key_member(k: &str, kt: &Ty, env: &Env, fuel: u32) -> bool {
    if fuel == 0 {
        return false;
    }
    match kt {
        Ty::String | Ty::Any | Ty::Unknown => true,
        Ty::Number => k.parse::<f64>().is_ok() && !k.is_empty(),
        Ty::BigInt => k.parse::<i128>().is_ok(),
        Ty::Boolean => k == "true" || k == "false",
        Ty::Lit(s) => s == k,
        Ty::NumLit(s) => s == k,
        Ty::BoolLit(b) => k == if *b { "true" } else { "false" },
        Ty::Union(ts) => ts.iter().any(|t| key_member(k, t, env, fuel - 1)),
        Ty::Inter(ts) => ts.iter().all(|t| key_member(k, t, env, fuel - 1)),
        Ty::Ref(n, args) => match unfold(n, args, env) {
            Some(t) => key_member(k, &t, env, fuel - 1),
            None => false,
        },
        _ => false,
    }
}

/// finite set of keys denoted by a key type, if it is finite
fn finite_keys(kt: &Ty, env: &Env, fuel: u32) -> Option<Vec<String>> {
    if fuel == 0 {
        return None;
    }
    match kt {
        Ty::Lit(s) | Ty::NumLit(s) => Some(vec![s.clone()]),
        Ty::BoolLit(b) => Some(vec![b.to_string()]),
        Ty::Boolean => Some(vec!["true".into(), "false".into()]),
        Ty::Never => Some(vec![]),
        Ty::Union(ts) => {
            let mut out = vec![];
            for t in ts {
                out.extend(finite_keys(t, env, fuel - 1)?);
            }
            Some(out)
        }
        Ty::Ref(n, args) => finite_keys(&unfold(n, args, env)?, env, fuel - 1),
        _ => None,
    }
}

fn shape_member(obj: &serde_json::Map<String, Value>, s: &Shape, env: &Env, fuel: u32) -> bool {
    for (k, v) in obj {
        if let Some((tys, _)) = s.props.get(k) {
            if !tys.iter().all(|t| member_fuel(v, t, env, fuel - 1)) {
                return false;
            }
            // an index signature that admits the key constrains the property as well
            // (`{ a: number } & Record<string, never>` has `a: never`)
            for (kt, vt, _) in &s.index {
                if key_member(k, kt, env, fuel - 1) && !member_fuel(v, vt, env, fuel - 1) {
                    return false;
                }
            }
            continue;
        }
        let mut admitted = false;
        for (kt, vt, _) in &s.index {
            if key_member(k, kt, env, fuel - 1) {
                if !member_fuel(v, vt, env, fuel - 1) {
                    return false;
                }
                admitted = true;
            }
        }
        if !admitted && !s.open {
            return false;
        }
    }
    for (k, (_, optional)) in &s.props {
        if !*optional && !obj.contains_key(k) {
            return false;
        }
    }
    for (kt, _, optional) in &s.index {
        if !*optional {
            // `{ [key in "a" | "b"]: V }` requires all keys; `{ [key in string]: V }` none
            if let Some(keys) = finite_keys(kt, env, fuel - 1) {
                if keys.iter().any(|k| !obj.contains_key(k)) {
                    return false;
                }
            }
        }
    }
    true
}

pub const DEFAULT_FUEL: u32 = 200;

pub fn member(v: &Value, ty: &Ty, env: &Env) -> bool {
    member_fuel(v, ty, env, DEFAULT_FUEL)
}

fn member_fuel(v: &Value, ty: &Ty, env: &Env, fuel: u32) -> bool {
    if fuel == 0 {
        return false;
    }
    match ty {
        Ty::Any | Ty::Unknown => true,
        Ty::Never | Ty::Undefined => false,
        Ty::Number => v.is_number(),
        Ty::BigInt => v.is_i64() || v.is_u64(),
        Ty::String => v.is_string(),
        Ty::Boolean => v.is_boolean(),
        Ty::Null => v.is_null(),
        Ty::Lit(s) => v.as_str() == Some(s.as_str()),
        Ty::NumLit(s) => v.is_number() && v.to_string() == *s,
        Ty::BoolLit(b) => v.as_bool() == Some(*b),
        Ty::Array(t) => match v {
            Value::Array(a) => a.iter().all(|x| member_fuel(x, t, env, fuel - 1)),
            _ => false,
        },
        Ty::Tuple(ts) => match v {
            Value::Array(a) => {
                a.len() == ts.len()
                    && a.iter().zip(ts).all(|(x, t)| member_fuel(x, t, env, fuel - 1))
            }
            _ => false,
        },
        Ty::Union(ts) => ts.iter().any(|t| member_fuel(v, t, env, fuel - 1)),
        Ty::Ref(n, args) => match unfold(n, args, env) {
            Some(t) => member_fuel(v, &t, env, fuel - 1),
            None => false,
        },
        Ty::Obj(_) | Ty::Inter(_) => match v {
            Value::Object(obj) => alts(ty, env, fuel - 1).iter().any(|a| match a {
                Alt::Shape(s) => shape_member(obj, s, env, fuel - 1),
                Alt::Other(ts) => !ts.is_empty() && ts.iter().all(|t| member_fuel(v, t, env, fuel - 1)),
            }),
            _ => match ty {
                Ty::Inter(ts) => ts.iter().all(|t| member_fuel(v, t, env, fuel - 1)),
                _ => false,
            },
        },
    }
}

/// Explain why `v` is not a member (best effort, for replay files).
pub fn explain_nonmember(v: &Value, ty: &Ty, _env: &Env) -> String {
    format!("value {} is not a member of {}", v, show(ty))
}

// ------------------------------------------------------------------------------------------
// printing (used for messages, and for the print/reparse self check)
// ------------------------------------------------------------------------------------------

fn is_ident(s: &str) -> bool {
    let mut cs = s.chars();
    match cs.next() {
        Some(c) if c.is_ascii_alphabetic() || c == '_' || c == '$' => (),
        _ => return false,
    }
    cs.all(|c| c.is_ascii_alphanumeric() || c == '_' || c == '$')
}

pub fn show(ty: &Ty) -> String {
    match ty {
        Ty::Number => "number".into(),
        Ty::BigInt => "bigint".into(),
        Ty::String => "string".into(),
        Ty::Boolean => "boolean".into(),
        Ty::Null => "null".into(),
        Ty::Undefined => "undefined".into(),
        Ty::Never => "never".into(),
        Ty::Any => "any".into(),
        Ty::Unknown => "unknown".into(),
        Ty::Lit(s) => serde_json::to_string(s).unwrap(),
        Ty::NumLit(s) => s.clone(),
        Ty::BoolLit(b) => b.to_string(),
        Ty::Array(t) => format!("Array<{}>", show(t)),
        Ty::Tuple(ts) => format!("[{}]", ts.iter().map(show).collect::<Vec<_>>().join(", ")),
        Ty::Union(ts) if ts.is_empty() => "never".into(),
        Ty::Union(ts) => format!("({})", ts.iter().map(show).collect::<Vec<_>>().join(" | ")),
        Ty::Inter(ts) if ts.is_empty() => "unknown".into(),
        Ty::Inter(ts) => format!("({})", ts.iter().map(show).collect::<Vec<_>>().join(" & ")),
        Ty::Obj(o) => {
            if o.props.is_empty() && o.index.is_empty() {
                return "Record<string, never>".into();
            }
            let mut parts = vec![];
            for p in &o.props {
                let k = if is_ident(&p.key) { p.key.clone() } else { serde_json::to_string(&p.key).unwrap() };
                parts.push(format!("{}{}: {}", k, if p.optional { "?" } else { "" }, show(&p.ty)));
            }
            let obj = if parts.is_empty() { None } else { Some(format!("{{ {} }}", parts.join(", "))) };
            let mut all: Vec<String> = obj.into_iter().collect();
            for (k, v, opt) in &o.index {
                all.push(format!("{{ [key in {}]{}: {} }}", show(k), if *opt { "?" } else { "" }, show(v)));
            }
            if all.len() == 1 {
                all.pop().unwrap()
            } else {
                format!("({})", all.join(" & "))
            }
        }
        Ty::Ref(n, args) if args.is_empty() => n.clone(),
        Ty::Ref(n, args) => format!("{}<{}>", n, args.iter().map(show).collect::<Vec<_>>().join(", ")),
    }
}

// ------------------------------------------------------------------------------------------
// witnesses
// ------------------------------------------------------------------------------------------

#[derive(Clone, Debug)]
pub struct Bounds {
    pub depth: u32,
    pub max_per_type: usize,
    pub max_optional_exhaustive: usize,
}

impl Default for Bounds {
    fn default() -> Self {
        Bounds { depth: 4, max_per_type: 48, max_optional_exhaustive: 4 }
    }
}

fn dedup(mut v: Vec<Value>, cap: usize) -> Vec<Value> {
    let mut seen = BTreeSet::new();
    v.retain(|x| seen.insert(x.to_string()));
    v.truncate(cap);
    v
}

/// "one factor at a time" product: the all-first combination plus, for every position, every
/// alternative at that position with the others at their first witness.
fn product_ofat(lists: &[Vec<Value>], cap: usize) -> Vec<Vec<Value>> {
    if lists.iter().any(|l| l.is_empty()) {
        return vec![];
    }
    let base: Vec<Value> = lists.iter().map(|l| l[0].clone()).collect();
    let mut out = vec![base.clone()];
    for (i, l) in lists.iter().enumerate() {
        for alt in l.iter().skip(1) {
            let mut c = base.clone();
            c[i] = alt.clone();
            out.push(c);
            if out.len() >= cap {
                return out;
            }
        }
    }
    // one "all last" combination for good measure
    out.push(lists.iter().map(|l| l[l.len() - 1].clone()).collect());
    out
}

fn key_witnesses(kt: &Ty, env: &Env, fuel: u32) -> Vec<String> {
    if fuel == 0 {
        return vec![];
    }
    match kt {
        Ty::String | Ty::Any | Ty::Unknown => vec!["a".into()],
        Ty::Number | Ty::BigInt => vec!["1".into()],
        Ty::Boolean => vec!["true".into(), "false".into()],
        Ty::Lit(s) | Ty::NumLit(s) => vec![s.clone()],
        Ty::BoolLit(b) => vec![b.to_string()],
        Ty::Union(ts) => ts.iter().flat_map(|t| key_witnesses(t, env, fuel - 1)).collect(),
        Ty::Ref(n, args) => match unfold(n, args, env) {
            Some(t) => key_witnesses(&t, env, fuel - 1),
            None => vec![],
        },
        _ => vec![],
    }
}

fn shape_witnesses(s: &Shape, env: &Env, b: &Bounds, depth: u32) -> Vec<Value> {
    // per property: witnesses that satisfy all its types
    let mut required: Vec<(String, Vec<Value>)> = vec![];
    let mut optional: Vec<(String, Vec<Value>)> = vec![];
    for (k, (tys, opt)) in &s.props {
        let mut ws = witnesses_depth(&tys[0], env, b, depth);
        if tys.len() > 1 {
            ws.retain(|w| tys.iter().all(|t| member(w, t, env)));
        }
        if *opt {
            if !ws.is_empty() {
                optional.push((k.clone(), ws));
            }
        } else {
            if ws.is_empty() {
                return vec![];
            }
            required.push((k.clone(), ws));
        }
    }
    let req_lists: Vec<Vec<Value>> = required.iter().map(|(_, w)| w.clone()).collect();
    let combos = if req_lists.is_empty() { vec![vec![]] } else { product_ofat(&req_lists, b.max_per_type) };
    // optional subsets
    let n = optional.len();
    let mut subsets: Vec<Vec<bool>> = vec![];
    if n <= b.max_optional_exhaustive {
        for m in 0..(1u32 << n) {
            subsets.push((0..n).map(|i| m & (1 << i) != 0).collect());
        }
    } else {
        subsets.push(vec![false; n]);
        subsets.push(vec![true; n]);
        for i in 0..n {
            let mut v = vec![false; n];
            v[i] = true;
            subsets.push(v);
            let mut v = vec![true; n];
            v[i] = false;
            subsets.push(v);
        }
    }
    let mut out = vec![];
    for (ci, combo) in combos.iter().enumerate() {
        for (si, sub) in subsets.iter().enumerate() {
            // full cross product only for the first required-combination; afterwards rotate
            if ci > 0 && si != ci % subsets.len() {
                continue;
            }
            let mut m = serde_json::Map::new();
            for ((k, _), v) in required.iter().zip(combo) {
                m.insert(k.clone(), v.clone());
            }
            for (i, present) in sub.iter().enumerate() {
                if *present {
                    let ws = &optional[i].1;
                    m.insert(optional[i].0.clone(), ws[(ci + si) % ws.len()].clone());
                }
            }
            out.push(Value::Object(m));
        }
    }
    // index signatures: add one entry (map size 0 is already covered by the plain objects)
    let mut extra = vec![];
    for (kt, vt, _) in &s.index {
        let keys = key_witnesses(kt, env, DEFAULT_FUEL);
        let vals = witnesses_depth(vt, env, b, depth);
        for (i, k) in keys.iter().enumerate() {
            if s.props.contains_key(k) {
                continue;
            }
            for (j, v) in vals.iter().enumerate() {
                if i > 0 && j > 0 {
                    continue;
                }
                for base in out.iter().take(2) {
                    let mut m = base.as_object().unwrap().clone();
                    m.insert(k.clone(), v.clone());
                    extra.push(Value::Object(m));
                }
            }
        }
    }
    out.extend(extra);
    // required keys of non-optional finite mapped types
    let out: Vec<Value> = out
        .into_iter()
        .filter(|v| shape_member(v.as_object().unwrap(), s, env, DEFAULT_FUEL))
        .collect();
    out
}

pub fn witnesses(ty: &Ty, env: &Env, b: &Bounds) -> Vec<Value> {
    witnesses_depth(ty, env, b, b.depth)
}

fn witnesses_depth(ty: &Ty, env: &Env, b: &Bounds, depth: u32) -> Vec<Value> {
    let out = match ty {
        Ty::Number => vec![Value::from(1), Value::from(2)],
        Ty::BigInt => vec![Value::from(1), Value::from(3)],
        Ty::String => vec![Value::from("a"), Value::from("b")],
        Ty::Boolean => vec![Value::from(true), Value::from(false)],
        Ty::Null => vec![Value::Null],
        Ty::Never | Ty::Undefined => vec![],
        Ty::Any | Ty::Unknown => vec![Value::Null, Value::from(1), Value::from("a")],
        Ty::Lit(s) => vec![Value::from(s.clone())],
        Ty::NumLit(s) => serde_json::from_str(s).ok().into_iter().collect(),
        Ty::BoolLit(x) => vec![Value::from(*x)],
        Ty::Array(t) => {
            let ws = witnesses_depth(t, env, b, depth);
            let mut out = vec![Value::Array(vec![])];
            for w in ws.iter().take(6) {
                out.push(Value::Array(vec![w.clone()]));
            }
            if ws.len() >= 2 {
                out.push(Value::Array(vec![ws[0].clone(), ws[1].clone()]));
                out.push(Value::Array(vec![ws[ws.len() - 1].clone(), ws[0].clone()]));
            } else if ws.len() == 1 {
                out.push(Value::Array(vec![ws[0].clone(), ws[0].clone()]));
            }
            out
        }
        Ty::Tuple(ts) => {
            let lists: Vec<Vec<Value>> = ts.iter().map(|t| witnesses_depth(t, env, b, depth)).collect();
            if lists.is_empty() {
                vec![Value::Array(vec![])]
            } else {
                product_ofat(&lists, b.max_per_type).into_iter().map(Value::Array).collect()
            }
        }
        Ty::Union(ts) => {
            // interleave so that truncation keeps every arm
            let lists: Vec<Vec<Value>> = ts.iter().map(|t| witnesses_depth(t, env, b, depth)).collect();
            let mut out = vec![];
            let longest = lists.iter().map(|l| l.len()).max().unwrap_or(0);
            for i in 0..longest {
                for l in &lists {
                    if let Some(v) = l.get(i) {
                        out.push(v.clone());
                    }
                }
            }
            out
        }
        Ty::Ref(n, args) => {
            if depth == 0 {
                vec![]
            } else {
                match unfold(n, args, env) {
                    Some(t) => witnesses_depth(&t, env, b, depth - 1),
                    None => vec![],
                }
            }
        }
        Ty::Obj(_) | Ty::Inter(_) => {
            let mut out = vec![];
            let alts = alts(ty, env, DEFAULT_FUEL);
            let per = std::cmp::max(4, b.max_per_type / std::cmp::max(1, alts.len()));
            for a in &alts {
                match a {
                    Alt::Shape(s) => out.extend(shape_witnesses(s, env, b, depth).into_iter().take(per)),
                    Alt::Other(ts) => {
                        if let Some(first) = ts.first() {
                            let ws = witnesses_depth(first, env, b, depth);
                            out.extend(ws.into_iter().filter(|w| ts.iter().all(|t| member(w, t, env))));
                        }
                    }
                }
            }
            out
        }
    };
    dedup(out, b.max_per_type)
}

/// Tape driven sampling of a member of `ty`: every choice is taken from `tape` (a proptest
/// generated vector), choice 0 being the simplest, so that shrinking the tape shrinks the value.
/// Leaves come from the universally safe pool: numbers 1..=127, one-letter strings.
pub struct Tape<'a> {
    pub words: &'a [u32],
    pub pos: usize,
}

impl<'a> Tape<'a> {
    pub fn new(words: &'a [u32]) -> Self {
        Tape { words, pos: 0 }
    }
    pub fn choose(&mut self, n: usize) -> usize {
        if n <= 1 {
            return 0;
        }
        let w = self.words.get(self.pos).copied().unwrap_or(0);
        self.pos += 1;
        ((w as u64 * n as u64) >> 32) as usize
    }
}

pub fn witness_from_tape(ty: &Ty, env: &Env, tape: &mut Tape, depth: u32) -> Option<Value> {
    match ty {
        Ty::Number | Ty::BigInt => Some(Value::from(1 + tape.choose(127) as u64)),
        Ty::String => {
            let c = (b'a' + tape.choose(26) as u8) as char;
            Some(Value::from(c.to_string()))
        }
        Ty::Boolean => Some(Value::from(tape.choose(2) == 1)),
        Ty::Null => Some(Value::Null),
        Ty::Never | Ty::Undefined => None,
        Ty::Any | Ty::Unknown => Some(Value::Null),
        Ty::Lit(s) => Some(Value::from(s.clone())),
        Ty::NumLit(s) => serde_json::from_str(s).ok(),
        Ty::BoolLit(b) => Some(Value::from(*b)),
        Ty::Array(t) => {
            let n = tape.choose(4);
            let mut out = vec![];
            for _ in 0..n {
                match witness_from_tape(t, env, tape, depth) {
                    Some(v) => out.push(v),
                    None => break,
                }
            }
            Some(Value::Array(out))
        }
        Ty::Tuple(ts) => {
            let mut out = vec![];
            for t in ts {
                out.push(witness_from_tape(t, env, tape, depth)?);
            }
            Some(Value::Array(out))
        }
        Ty::Union(ts) => {
            if ts.is_empty() {
                return None;
            }
            let start = tape.choose(ts.len());
            for i in 0..ts.len() {
                if let Some(v) = witness_from_tape(&ts[(start + i) % ts.len()], env, tape, depth) {
                    return Some(v);
                }
            }
            None
        }
        Ty::Ref(n, args) => {
            if depth == 0 {
                return None;
            }
            let t = unfold(n, args, env)?;
            witness_from_tape(&t, env, tape, depth - 1)
        }
        Ty::Obj(_) | Ty::Inter(_) => {
            let alts = alts(ty, env, DEFAULT_FUEL);
            if alts.is_empty() {
                return None;
            }
            let start = tape.choose(alts.len());
            for i in 0..alts.len() {
                let a = &alts[(start + i) % alts.len()];
                match a {
                    Alt::Other(ts) => {
                        if let Some(first) = ts.first() {
                            if let Some(v) = witness_from_tape(first, env, tape, depth) {
                                if ts.iter().all(|t| member(&v, t, env)) {
                                    return Some(v);
                                }
                            }
                        }
                    }
                    Alt::Shape(s) => {
                        let mut m = serde_json::Map::new();
                        let mut ok = true;
                        for (k, (tys, opt)) in &s.props {
                            if *opt && tape.choose(2) == 0 {
                                continue;
                            }
                            match witness_from_tape(&tys[0], env, tape, depth) {
                                Some(v) if tys.iter().all(|t| member(&v, t, env)) => {
                                    m.insert(k.clone(), v);
                                }
                                _ => {
                                    if !*opt {
                                        ok = false;
                                        break;
                                    }
                                }
                            }
                        }
                        if !ok {
                            continue;
                        }
                        for (kt, vt, _) in &s.index {
                            let keys = key_witnesses(kt, env, DEFAULT_FUEL);
                            if keys.is_empty() {
                                continue;
                            }
                            let n = tape.choose(3);
                            for _ in 0..n {
                                let mut k = keys[tape.choose(keys.len())].clone();
                                if matches!(kt, Ty::String) {
                                    k = ((b'a' + tape.choose(5) as u8) as char).to_string();
                                } else if matches!(kt, Ty::Number | Ty::BigInt) {
                                    k = (1 + tape.choose(9)).to_string();
                                }
                                if s.props.contains_key(&k) {
                                    continue;
                                }
                                if let Some(v) = witness_from_tape(vt, env, tape, depth) {
                                    m.insert(k, v);
                                }
                            }
                        }
                        let v = Value::Object(m);
                        if shape_member(v.as_object().unwrap(), s, env, DEFAULT_FUEL) {
                            return Some(v);
                        }
                    }
                }
            }
            None
        }
    }
}

// ------------------------------------------------------------------------------------------
// equivalence by witnesses
// ------------------------------------------------------------------------------------------

#[derive(Debug, Clone)]
pub struct Distinction {
    pub value: Value,
    /// true: value is in the left type only; false: in the right type only
    pub in_left: bool,
}

/// Search for a JSON value that is a member of exactly one of the two types.
/// `None` means: no distinguishing value found among the enumerated/sampled witnesses.
pub fn distinguish(a: &Ty, env_a: &Env, b: &Ty, env_b: &Env, extra_tapes: &[Vec<u32>]) -> Option<Distinction> {
    let bounds = Bounds { depth: 4, max_per_type: 96, max_optional_exhaustive: 4 };
    for w in witnesses(a, env_a, &bounds) {
        if !member(&w, b, env_b) {
            return Some(Distinction { value: w, in_left: true });
        }
    }
    for w in witnesses(b, env_b, &bounds) {
        if !member(&w, a, env_a) {
            return Some(Distinction { value: w, in_left: false });
        }
    }
    for t in extra_tapes {
        if let Some(w) = witness_from_tape(a, env_a, &mut Tape::new(t), 4) {
            if member(&w, a, env_a) && !member(&w, b, env_b) {
                return Some(Distinction { value: w, in_left: true });
            }
        }
        if let Some(w) = witness_from_tape(b, env_b, &mut Tape::new(t), 4) {
            if member(&w, b, env_b) && !member(&w, a, env_a) {
                return Some(Distinction { value: w, in_left: false });
            }
        }
    }
    None
}

/// Structural statistics used for "non-trivial" classification of witnesses.
pub fn ty_features(ty: &Ty, env: &Env, depth: u32, out: &mut BTreeSet<&'static str>) {
    if depth == 0 {
        return;
    }
    match ty {
        Ty::Union(ts) => {
            if ts.len() >= 2 {
                out.insert("union");
            }
            ts.iter().for_each(|t| ty_features(t, env, depth, out));
        }
        Ty::Inter(ts) => {
            out.insert("intersection");
            ts.iter().for_each(|t| ty_features(t, env, depth, out));
        }
        Ty::Tuple(ts) => {
            out.insert("tuple");
            ts.iter().for_each(|t| ty_features(t, env, depth, out));
        }
        Ty::Array(t) => {
            out.insert("array");
            ty_features(t, env, depth, out)
        }
        Ty::Lit(_) => {
            out.insert("literal");
        }
        Ty::Obj(o) => {
            if o.props.iter().any(|p| p.optional) {
                out.insert("optional_prop");
            }
            if !o.index.is_empty() {
                out.insert("index");
            }
            if !o.props.is_empty() {
                out.insert("object");
            }
            o.props.iter().for_each(|p| ty_features(&p.ty, env, depth, out));
            o.index.iter().for_each(|(_, v, _)| ty_features(v, env, depth, out));
        }
        Ty::Ref(n, args) => {
            out.insert("ref");
            if let Some(t) = unfold(n, args, env) {
                ty_features(&t, env, depth - 1, out);
            }
        }
        _ => (),
    }
}

// ------------------------------------------------------------------------------------------
// leaf coercion
// ------------------------------------------------------------------------------------------

/// A value of the same shape as `v` that is a member of `ty` and whose number/string leaves come
/// from the universally safe pool (integers 1..=127, one ASCII letter). Used to turn mutated real
/// samples into witnesses that respect the leaf restriction of C02. `None`: `v` does not fit.
pub fn coerce_leaves(v: &Value, ty: &Ty, env: &Env) -> Option<Value> {
    coerce_fuel(v, ty, env, DEFAULT_FUEL)
}

fn coerce_fuel(v: &Value, ty: &Ty, env: &Env, fuel: u32) -> Option<Value> {
    if fuel == 0 {
        return None;
    }
    match ty {
        Ty::Number | Ty::BigInt => {
            if !v.is_number() {
                return None;
            }
            match v.as_u64() {
                Some(n) if (1..=127).contains(&n) => Some(v.clone()),
                _ => Some(Value::from(1)),
            }
        }
        Ty::String => {
            let s = v.as_str()?;
            let mut cs = s.chars();
            match (cs.next(), cs.next()) {
                (Some(c), None) if c.is_ascii_alphabetic() => Some(v.clone()),
                _ => Some(Value::from("a")),
            }
        }
        Ty::Any | Ty::Unknown => Some(v.clone()),
        Ty::Array(t) => {
            let a = v.as_array()?;
            Some(Value::Array(a.iter().map(|x| coerce_fuel(x, t, env, fuel - 1)).collect::<Option<Vec<_>>>()?))
        }
        Ty::Tuple(ts) => {
            let a = v.as_array()?;
            if a.len() != ts.len() {
                return None;
            }
            Some(Value::Array(a.iter().zip(ts).map(|(x, t)| coerce_fuel(x, t, env, fuel - 1)).collect::<Option<Vec<_>>>()?))
        }
        Ty::Union(ts) => ts.iter().find_map(|t| coerce_fuel(v, t, env, fuel - 1)),
        Ty::Ref(n, args) => coerce_fuel(v, &unfold(n, args, env)?, env, fuel - 1),
        Ty::Obj(_) | Ty::Inter(_) => {
            let Value::Object(obj) = v else {
                return if member_fuel(v, ty, env, fuel - 1) { Some(v.clone()) } else { None };
            };
            'alts: for a in alts(ty, env, fuel - 1) {
                let Alt::Shape(s) = a else { continue };
                let mut out = serde_json::Map::new();
                for (k, x) in obj {
                    if let Some((tys, _)) = s.props.get(k) {
                        match coerce_fuel(x, &tys[0], env, fuel - 1) {
                            Some(c) if tys.iter().all(|t| member_fuel(&c, t, env, fuel - 1)) => {
                                out.insert(k.clone(), c);
                            }
                            _ => continue 'alts,
                        }
                        continue;
                    }
                    let mut done = false;
                    for (kt, vt, _) in &s.index {
                        if key_member(k, kt, env, fuel - 1) {
                            match coerce_fuel(x, vt, env, fuel - 1) {
                                Some(c) => {
                                    out.insert(k.clone(), c);
                                    done = true;
                                    break;
                                }
                                None => continue 'alts,
                            }
                        }
                    }
                    if !done {
                        continue 'alts;
                    }
                }
                if shape_member(&out, &s, env, fuel - 1) {
                    return Some(Value::Object(out));
                }
            }
            None
        }
        _ => {
            if member_fuel(v, ty, env, fuel - 1) {
                Some(v.clone())
            } else {
                None
            }
        }
    }
}

// ------------------------------------------------------------------------------------------
// comment-insensitive comparison, property collection
// ------------------------------------------------------------------------------------------

/// the type with every comment / source position removed (for "docs never alter the type")
pub fn erase_meta(ty: &Ty) -> Ty {
    match ty {
        Ty::Array(t) => Ty::Array(Box::new(erase_meta(t))),
        Ty::Tuple(ts) => Ty::Tuple(ts.iter().map(erase_meta).collect()),
        Ty::Union(ts) => Ty::Union(ts.iter().map(erase_meta).collect()),
        Ty::Inter(ts) => Ty::Inter(ts.iter().map(erase_meta).collect()),
        Ty::Obj(o) => Ty::Obj(Obj {
            props: o.props.iter().map(|p| Prop { key: p.key.clone(), optional: p.optional, ty: erase_meta(&p.ty), quoted: p.quoted, docs: vec![], lo: 0 }).collect(),
            index: o.index.iter().map(|(k, v, opt)| (erase_meta(k), erase_meta(v), *opt)).collect(),
        }),
        Ty::Ref(n, args) => Ty::Ref(n.clone(), args.iter().map(erase_meta).collect()),
        other => other.clone(),
    }
}

/// every property signature of a type, in source order
pub fn collect_props<'a>(ty: &'a Ty, out: &mut Vec<&'a Prop>) {
    match ty {
        Ty::Array(t) => collect_props(t, out),
        Ty::Tuple(ts) | Ty::Union(ts) | Ty::Inter(ts) => ts.iter().for_each(|t| collect_props(t, out)),
        Ty::Obj(o) => {
            for p in &o.props {
                out.push(p);
                collect_props(&p.ty, out);
            }
            for (k, v, _) in &o.index {
                collect_props(k, out);
                collect_props(v, out);
            }
        }
        Ty::Ref(_, args) => args.iter().for_each(|t| collect_props(t, out)),
        _ => (),
    }
}
