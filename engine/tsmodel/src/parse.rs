use swc_common::{
    comments::{CommentKind, Comments, SingleThreadedComments},
    sync::Lrc,
    BytePos, FileName, SourceMap, Spanned,
};
use swc_ecma_ast::*;
use swc_ecma_parser::{lexer::Lexer, Parser, StringInput, Syntax, TsConfig};

use crate::{Comment, Decl, Import, ItemKind, Module as TsModule, Obj, Prop, Ty};

struct Cx<'a> {
    comments: &'a SingleThreadedComments,
    base: u32,
}

impl Cx<'_> {
    fn off(&self, p: BytePos) -> u32 {
        p.0.saturating_sub(self.base)
    }

    fn leading(&self, p: BytePos) -> Vec<Comment> {
        self.comments
            .get_leading(p)
            .unwrap_or_default()
            .into_iter()
            .map(|c| Comment {
                block: c.kind == CommentKind::Block,
                text: c.text.to_string(),
                lo: self.off(c.span.lo),
                hi: self.off(c.span.hi),
            })
            .collect()
    }

    fn key(&self, e: &Expr) -> Result<(String, bool), String> {
        match e {
            Expr::Ident(i) => Ok((i.sym.to_string(), false)),
            Expr::Lit(Lit::Str(s)) => Ok((s.value.to_string(), true)),
            Expr::Lit(Lit::Num(n)) => Ok((
                match &n.raw {
                    Some(r) => r.to_string(),
                    None => n.value.to_string(),
                },
                false,
            )),
            other => Err(format!("unsupported property key {:?}", other)),
        }
    }

    fn entity(&self, n: &TsEntityName) -> String {
        match n {
            TsEntityName::Ident(i) => i.sym.to_string(),
            TsEntityName::TsQualifiedName(q) => format!("{}.{}", self.entity(&q.left), q.right.sym),
        }
    }

    fn ty(&self, t: &TsType) -> Result<Ty, String> {
        Ok(match t {
            TsType::TsKeywordType(k) => match k.kind {
                TsKeywordTypeKind::TsNumberKeyword => Ty::Number,
                TsKeywordTypeKind::TsBigIntKeyword => Ty::BigInt,
                TsKeywordTypeKind::TsStringKeyword => Ty::String,
                TsKeywordTypeKind::TsBooleanKeyword => Ty::Boolean,
                TsKeywordTypeKind::TsNullKeyword => Ty::Null,
                TsKeywordTypeKind::TsUndefinedKeyword | TsKeywordTypeKind::TsVoidKeyword => Ty::Undefined,
                TsKeywordTypeKind::TsNeverKeyword => Ty::Never,
                TsKeywordTypeKind::TsAnyKeyword => Ty::Any,
                TsKeywordTypeKind::TsUnknownKeyword => Ty::Unknown,
                other => return Err(format!("unsupported keyword type {:?}", other)),
            },
            TsType::TsLitType(l) => match &l.lit {
                TsLit::Str(s) => Ty::Lit(s.value.to_string()),
                TsLit::Number(n) => Ty::NumLit(match &n.raw {
                    Some(r) => r.to_string(),
                    None => n.value.to_string(),
                }),
                TsLit::Bool(b) => Ty::BoolLit(b.value),
                other => return Err(format!("unsupported literal type {:?}", other)),
            },
            TsType::TsArrayType(a) => Ty::Array(Box::new(self.ty(&a.elem_type)?)),
            TsType::TsTupleType(t) => Ty::Tuple(
                t.elem_types
                    .iter()
                    .map(|e| self.ty(&e.ty))
                    .collect::<Result<Vec<_>, _>>()?,
            ),
            TsType::TsParenthesizedType(p) => self.ty(&p.type_ann)?,
            TsType::TsUnionOrIntersectionType(TsUnionOrIntersectionType::TsUnionType(u)) => {
                let mut out = vec![];
                for t in &u.types {
                    match self.ty(t)? {
                        Ty::Union(inner) => out.extend(inner),
                        other => out.push(other),
                    }
                }
                Ty::Union(out)
            }
            TsType::TsUnionOrIntersectionType(TsUnionOrIntersectionType::TsIntersectionType(u)) => {
                let mut out = vec![];
                for t in &u.types {
                    match self.ty(t)? {
                        Ty::Inter(inner) => out.extend(inner),
                        other => out.push(other),
                    }
                }
                Ty::Inter(out)
            }
            TsType::TsTypeLit(l) => {
                let mut o = Obj::default();
                for m in &l.members {
                    match m {
                        TsTypeElement::TsPropertySignature(p) => {
                            if p.computed {
                                return Err("computed property".into());
                            }
                            let (key, quoted) = self.key(&p.key)?;
                            let ty = match &p.type_ann {
                                Some(a) => self.ty(&a.type_ann)?,
                                None => Ty::Any,
                            };
                            o.props.push(Prop {
                                key,
                                optional: p.optional,
                                ty,
                                quoted,
                                docs: self.leading(p.span.lo),
                                lo: self.off(p.span.lo),
                            });
                        }
                        TsTypeElement::TsIndexSignature(ix) => {
                            let kt = match ix.params.first() {
                                Some(TsFnParam::Ident(b)) => match &b.type_ann {
                                    Some(a) => self.ty(&a.type_ann)?,
                                    None => Ty::String,
                                },
                                _ => return Err("unsupported index signature".into()),
                            };
                            let vt = match &ix.type_ann {
                                Some(a) => self.ty(&a.type_ann)?,
                                None => Ty::Any,
                            };
                            o.index.push((kt, vt, true));
                        }
                        other => return Err(format!("unsupported type element {:?}", other)),
                    }
                }
                Ty::Obj(o)
            }
            TsType::TsMappedType(m) => {
                let kt = match &m.type_param.constraint {
                    Some(c) => self.ty(c)?,
                    None => return Err("mapped type without constraint".into()),
                };
                let vt = match &m.type_ann {
                    Some(a) => self.ty(a)?,
                    None => Ty::Any,
                };
                let optional = match m.optional {
                    None => false,
                    Some(TruePlusMinus::True) | Some(TruePlusMinus::Plus) => true,
                    Some(TruePlusMinus::Minus) => false,
                };
                Ty::Obj(Obj { props: vec![], index: vec![(kt, vt, optional)] })
            }
            TsType::TsTypeRef(r) => {
                let name = self.entity(&r.type_name);
                let args: Vec<Ty> = match &r.type_params {
                    Some(p) => p.params.iter().map(|t| self.ty(t)).collect::<Result<_, _>>()?,
                    None => vec![],
                };
                match (name.as_str(), args.len()) {
                    ("Array", 1) | ("ReadonlyArray", 1) => Ty::Array(Box::new(args[0].clone())),
                    ("Record", 2) => Ty::Obj(Obj {
                        props: vec![],
                        index: vec![(args[0].clone(), args[1].clone(), false)],
                    }),
                    _ => Ty::Ref(name, args),
                }
            }
            TsType::TsOptionalType(o) => Ty::Union(vec![self.ty(&o.type_ann)?, Ty::Undefined]),
            // function and conditional types only come from `#[ts(type = "..")]` texts (the C05
            // pieces): opaque here, nothing is ever asked about their values
            TsType::TsFnOrConstructorType(_) | TsType::TsConditionalType(_) | TsType::TsInferType(_) => Ty::Any,
            other => return Err(format!("unsupported type syntax {:?}", std::mem::discriminant(other))),
        })
    }

    fn alias(&self, a: &TsTypeAliasDecl, exported: bool, lo: BytePos, hi: BytePos) -> Result<Decl, String> {
        let mut params = vec![];
        if let Some(tp) = &a.type_params {
            for p in &tp.params {
                let default = match &p.default {
                    Some(d) => Some(self.ty(d)?),
                    None => None,
                };
                params.push((p.name.sym.to_string(), default));
            }
        }
        Ok(Decl {
            name: a.id.sym.to_string(),
            params,
            body: self.ty(&a.type_ann)?,
            exported,
            docs: self.leading(lo),
            lo: self.off(lo),
            hi: self.off(hi),
        })
    }
}

/// Parse a TypeScript module. `Err` if swc reports a fatal or a recoverable syntax error, or if a
/// type uses syntax outside the model.
pub fn parse_module(src: &str) -> Result<TsModule, String> {
    let cm: Lrc<SourceMap> = Default::default();
    let fm = cm.new_source_file(FileName::Custom("x.ts".into()), src.to_string());
    let comments = SingleThreadedComments::default();
    let lexer = Lexer::new(
        Syntax::Typescript(TsConfig::default()),
        Default::default(),
        StringInput::from(&*fm),
        Some(&comments),
    );
    let mut p = Parser::new_from(lexer);
    let m = p.parse_module().map_err(|e| format!("syntax error: {:?}", e.kind()))?;
    let errs = p.take_errors();
    if !errs.is_empty() {
        return Err(format!(
            "syntax errors: {}",
            errs.iter().map(|e| format!("{:?}", e.kind())).collect::<Vec<_>>().join("; ")
        ));
    }
    let cx = Cx { comments: &comments, base: fm.start_pos.0 };
    let mut out = TsModule::default();
    for item in &m.body {
        match item {
            ModuleItem::ModuleDecl(ModuleDecl::Import(i)) => {
                let mut names = vec![];
                let mut all_named = true;
                for s in &i.specifiers {
                    match s {
                        ImportSpecifier::Named(n) => {
                            if n.imported.is_some() {
                                all_named = false;
                            }
                            names.push(n.local.sym.to_string())
                        }
                        _ => all_named = false,
                    }
                }
                if !all_named {
                    out.items.push(ItemKind::Other("import (default/namespace/renamed)".into()));
                    continue;
                }
                out.items.push(ItemKind::Import);
                out.imports.push(Import {
                    names,
                    spec: i.src.value.to_string(),
                    type_only: i.type_only,
                    lo: cx.off(i.span.lo),
                    hi: cx.off(i.span.hi),
                });
            }
            ModuleItem::ModuleDecl(ModuleDecl::ExportDecl(e)) => match &e.decl {
                swc_ecma_ast::Decl::TsTypeAlias(a) => {
                    out.items.push(ItemKind::TypeAlias);
                    out.decls.push(cx.alias(a, true, e.span.lo, e.span.hi)?);
                }
                other => out.items.push(ItemKind::Other(format!("export {:?}", std::mem::discriminant(other)))),
            },
            ModuleItem::Stmt(Stmt::Decl(swc_ecma_ast::Decl::TsTypeAlias(a))) => {
                out.items.push(ItemKind::Other("non-exported type alias".into()));
                out.decls.push(cx.alias(a, false, a.span().lo, a.span().hi)?);
            }
            ModuleItem::Stmt(Stmt::Empty(_)) => out.items.push(ItemKind::Other("empty statement".into())),
            other => out.items.push(ItemKind::Other(format!("{:?}", other).chars().take(80).collect())),
        }
    }
    let (leading, trailing) = comments.borrow_all();
    let mut all: Vec<Comment> = leading
        .values()
        .chain(trailing.values())
        .flatten()
        .map(|c| Comment {
            block: c.kind == CommentKind::Block,
            text: c.text.to_string(),
            lo: cx.off(c.span.lo),
            hi: cx.off(c.span.hi),
        })
        .collect();
    all.sort_by_key(|c| c.lo);
    all.dedup();
    out.comments = all;
    Ok(out)
}

/// Parse a type expression.
pub fn parse_type(src: &str) -> Result<Ty, String> {
    let m = parse_module(&format!("type __T = {};", src))?;
    match m.decls.into_iter().next() {
        Some(d) if d.name == "__T" && m.items.len() == 1 => Ok(d.body),
        _ => Err("not a single type expression".into()),
    }
}
