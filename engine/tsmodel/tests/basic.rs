use serde_json::json;
use tsmodel::*;

fn env(src: &str) -> Env {
    let m = parse_module(src).expect("parse");
    env_from_decls(&m.decls)
}

fn check(envsrc: &str, ty: &str, v: serde_json::Value, expect: bool) {
    let e = env(envsrc);
    let t = parse_type(ty).expect("type");
    assert_eq!(member(&v, &t, &e), expect, "{} in {} (env {})", v, ty, envsrc);
}

#[test]
fn primitives() {
    check("", "number", json!(1.5), true);
    check("", "bigint", json!(1.5), false);
    check("", "bigint", json!(18446744073709551615u64), true);
    check("", "string | null", json!(null), true);
    check("", "Array<number>", json!([1, 2]), true);
    check("", "[number, string]", json!([1, "a"]), true);
    check("", "[number, string]", json!([1]), false);
    check("", "never[]", json!([]), true);
    check("", "never[]", json!([1]), false);
    check("", "Record<string, never>", json!({}), true);
    check("", "Record<string, never>", json!({"a": 1}), false);
    check("", "null", json!(null), true);
}

#[test]
fn objects_exact() {
    check("", "{ a: number, b?: string, }", json!({"a": 1}), true);
    check("", "{ a: number, b?: string, }", json!({"a": 1, "b": "x"}), true);
    check("", "{ a: number, b?: string, }", json!({"a": 1, "b": null}), false);
    check("", "{ a: number, b?: string, }", json!({"a": 1, "c": 1}), false);
    check("", "{ a: number, b?: string, }", json!({"b": "x"}), false);
    check("", r#"{ "a-b": number, größe: string }"#, json!({"a-b": 1, "größe": "x"}), true);
}

#[test]
fn enums() {
    let e = "export type E = \"A\" | { \"B\": number } | { \"C\": { x: string, } };";
    check(e, "E", json!("A"), true);
    check(e, "E", json!({"B": 1}), true);
    check(e, "E", json!({"C": {"x": "s"}}), true);
    check(e, "E", json!({"C": {"x": 1}}), false);
    check(e, "E", json!({"B": 1, "C": {"x": "s"}}), false);
    let i = "export type I = { \"t\": \"A\" } | { \"t\": \"B\", x: number, } | { \"t\": \"C\" } & Inner; export type Inner = { y: string, };";
    check(i, "I", json!({"t": "A"}), true);
    check(i, "I", json!({"t": "B", "x": 1}), true);
    check(i, "I", json!({"t": "C", "y": "s"}), true);
    check(i, "I", json!({"t": "C"}), false);
    check(i, "I", json!({"t": "A", "y": "s"}), false);
    let a = "export type A = { \"t\": \"A\", \"c\": number } | { \"t\": \"B\" };";
    check(a, "A", json!({"t": "A", "c": 1}), true);
    check(a, "A", json!({"t": "B", "c": 1}), false);
}

#[test]
fn flatten_dnf() {
    let s = "export type S = { a: number, } & ({ \"X\": string } | { \"Y\": null });";
    check(s, "S", json!({"a": 1, "X": "s"}), true);
    check(s, "S", json!({"a": 1, "Y": null}), true);
    check(s, "S", json!({"a": 1}), false);
    check(s, "S", json!({"a": 1, "X": "s", "Y": null}), false);
    // internally tagged newtype around an externally tagged enum: `{..} & ("X" | {..})`
    let t = "export type T = { \"t\": \"A\" } & (\"X\" | { \"Y\": number });";
    check(t, "T", json!({"t": "A", "Y": 1}), true);
    check(t, "T", json!({"t": "A", "X": null}), false);
}

#[test]
fn generics_and_maps() {
    let g = "export type G<T, U = string> = { t: T, u: Array<U>, m: { [key in string]?: T } }; export type K = \"a\" | \"b\";";
    check(g, "G<number>", json!({"t": 1, "u": ["x"], "m": {"k": 2}}), true);
    check(g, "G<number>", json!({"t": 1, "u": [1], "m": {}}), false);
    check(g, "G<number, number>", json!({"t": 1, "u": [1], "m": {}}), true);
    check(g, "{ [key in K]?: number }", json!({"a": 1}), true);
    check(g, "{ [key in K]?: number }", json!({"c": 1}), false);
    check(g, "{ [key in number]?: number }", json!({"12": 1}), true);
    check(g, "{ [key in number]?: number }", json!({"x": 1}), false);
    check(g, "{ [key in boolean]?: number }", json!({"true": 1}), true);
}

#[test]
fn recursive() {
    let r = "export type L = { v: number, next: L | null, };";
    check(r, "L", json!({"v": 1, "next": {"v": 2, "next": null}}), true);
    check(r, "L", json!({"v": 1, "next": {"v": 2}}), false);
}

#[test]
fn malformed_rejected() {
    assert!(parse_module("export type A = { \"a\"b\": number };").is_err());
    assert!(parse_module("export type A = { : number };").is_err());
    assert!(parse_module("/** a */ b */\nexport type A = number;").is_err());
    assert!(parse_module("export type A = number;").is_ok());
}

#[test]
fn comments_and_imports() {
    let src = "// note\nimport type { B } from \"./B\";\n\n/**\n * Doc of A\n */\nexport type A = { \n/**\n * field\n */\nx: B, };\n";
    let m = parse_module(src).unwrap();
    assert_eq!(m.imports.len(), 1);
    assert_eq!(m.imports[0].names, vec!["B"]);
    assert_eq!(m.imports[0].spec, "./B");
    assert!(m.imports[0].type_only);
    let d = &m.decls[0];
    assert_eq!(d.docs.len(), 1);
    assert!(d.docs[0].block && d.docs[0].text.contains("Doc of A"));
    match &d.body {
        Ty::Obj(o) => {
            assert_eq!(o.props[0].docs.len(), 1);
            assert!(o.props[0].docs[0].text.contains("field"));
        }
        _ => panic!(),
    }
    assert_eq!(free_type_names(d).into_iter().collect::<Vec<_>>(), vec!["B".to_string()]);
    assert_eq!(&src[d.lo as usize..d.hi as usize].chars().take(13).collect::<String>(), "export type A");
}

#[test]
fn witnesses_are_members() {
    let e = env("export type E = \"A\" | { \"B\": number } | { \"C\": { x: string, y?: bigint | null } }; export type I = { \"t\": \"A\" } | { \"t\": \"C\" } & Inner; export type Inner = { y: string, z: Array<E> }; export type S = { a: number, } & ({ \"X\": string } | { \"Y\": null }); export type G<T> = { t: T, m: { [key in string]?: T }, tu: [T, E | null] }; export type L = { v: number, next: L | null, };");
    for t in ["E", "I", "Inner", "S", "G<E>", "G<number>", "L", "Array<I>", "{ [key in \"a\" | \"b\"]?: E }"] {
        let ty = parse_type(t).unwrap();
        let ws = witnesses(&ty, &e, &Bounds::default());
        assert!(ws.len() >= 2, "{} has {} witnesses", t, ws.len());
        for w in &ws {
            assert!(member(w, &ty, &e), "{} not in {}", w, t);
        }
        for seed in 0..50u32 {
            let tape: Vec<u32> = (0..64).map(|i| (seed.wrapping_mul(2654435761).wrapping_add(i * 40503)).wrapping_mul(2246822519)).collect();
            if let Some(w) = witness_from_tape(&ty, &e, &mut Tape::new(&tape), 4) {
                assert!(member(&w, &ty, &e), "tape witness {} not in {}", w, t);
            }
        }
        // print / reparse invariance
        let printed = show(&ty);
        let re = parse_type(&printed).unwrap();
        for w in &ws {
            assert!(member(w, &re, &e));
        }
    }
    // distinguish
    let a = parse_type("{ a: number, b?: string }").unwrap();
    let b = parse_type("{ a: number, b: string | null }").unwrap();
    assert!(distinguish(&a, &e, &b, &e, &[]).is_some());
    let c = parse_type("{ a: number } & { b?: string }").unwrap();
    assert!(distinguish(&a, &e, &c, &e, &[]).is_none());
}
