// Included into /repo/macros/src/lib.rs under cfg(ts_rs_verif) (see the hook at the end of that
// file). Everything lives in a test-only module: a normal build of the derive crate gets nothing.
//
// The module deliberately touches as little of the crate's internals as possible: `expand()`
// mirrors the five lines of `entry()` (types::struct_def / types::enum_def + into_impl) and all
// checks look only at the produced token stream / error / panic.

#[cfg(test)]
#[allow(unused, dead_code, clippy::all)]
mod verif_harness {
    use std::{
        collections::{BTreeMap, BTreeSet, HashSet},
        panic::{catch_unwind, AssertUnwindSafe},
    };

    use proc_macro2::{TokenStream, TokenTree};
    use proptest::{
        prelude::*,
        test_runner::{Config, RngAlgorithm, TestRng, TestRunner},
    };
    use serde_json::{json, Value};

    mod serde_case {
        include!(env!("VERIF_SERDE_CASE_RS"));
    }

    include!("c09.rs");
    include!("c16.rs");
    include!("c10.rs");

    pub enum Expanded {
        Ok(TokenStream),
        Err(String),
        Panic(String),
        /// the generated text is not a Rust item at all (generator problem, never a violation)
        NotAnItem(String),
    }

    /// The body of `entry()` on source text, under catch_unwind.
    pub fn expand(src: &str) -> Expanded {
        let item: syn::Item = match syn::parse_str(src) {
            Ok(i) => i,
            Err(e) => return Expanded::NotAnItem(e.to_string()),
        };
        let res = catch_unwind(AssertUnwindSafe(|| -> syn::Result<TokenStream> {
            let (ts, ident, generics) = match item {
                syn::Item::Struct(s) => (crate::types::struct_def(&s)?, s.ident, s.generics),
                syn::Item::Enum(e) => (crate::types::enum_def(&e)?, e.ident, e.generics),
                _ => return Err(syn::Error::new(proc_macro2::Span::call_site(), "unsupported item")),
            };
            Ok(ts.into_impl(ident, generics))
        }));
        match res {
            Ok(Ok(ts)) => Expanded::Ok(ts),
            Ok(Err(e)) => Expanded::Err(e.to_string()),
            Err(p) => Expanded::Panic(
                p.downcast_ref::<String>()
                    .cloned()
                    .or_else(|| p.downcast_ref::<&str>().map(|s| s.to_string()))
                    .unwrap_or_else(|| "<non-string panic>".into()),
            ),
        }
    }

    /// all string literals of a token stream (values, unescaped)
    pub fn string_literals(ts: TokenStream, out: &mut Vec<String>) {
        for tt in ts {
            match tt {
                TokenTree::Group(g) => string_literals(g.stream(), out),
                TokenTree::Literal(l) => {
                    if let Ok(syn::Lit::Str(s)) = syn::parse_str::<syn::Lit>(&l.to_string()) {
                        out.push(s.value());
                    }
                }
                _ => (),
            }
        }
    }

    /// canonical form of an expansion that forgets statement order (the order of the dependency
    /// statements and where-predicates depends on the hash seed of the macro process): the sorted
    /// multiset of leaf tokens.
    pub fn canon(ts: TokenStream) -> Vec<String> {
        fn walk(ts: TokenStream, out: &mut Vec<String>) {
            for tt in ts {
                match tt {
                    TokenTree::Group(g) => {
                        out.push(format!("{:?}", g.delimiter()));
                        walk(g.stream(), out);
                    }
                    other => out.push(other.to_string()),
                }
            }
        }
        let mut out = vec![];
        walk(ts, &mut out);
        out.sort();
        out
    }

    pub fn fnv(s: &str) -> u64 {
        let mut h: u64 = 0xcbf29ce484222325;
        for b in s.as_bytes() {
            h ^= *b as u64;
            h = h.wrapping_mul(0x100000001b3);
        }
        h
    }

    pub fn seed_bytes(seed: u64) -> [u8; 32] {
        let mut b = [0u8; 32];
        for i in 0..4 {
            b[i * 8..i * 8 + 8]
                .copy_from_slice(&(seed.wrapping_add(i as u64).wrapping_mul(0x9E3779B97F4A7C15)).to_le_bytes());
        }
        b
    }

    #[derive(Default)]
    pub struct Report {
        pub evaluations: u64,
        pub nontrivial: u64,
        pub excluded_known: u64,
        pub discarded: u64,
        pub labels: BTreeMap<String, u64>,
        pub samples: Vec<Value>,
        pub failures: Vec<Value>,
        pub extra: BTreeMap<String, Value>,
    }

    impl Report {
        pub fn label(&mut self, l: &str) {
            *self.labels.entry(l.to_string()).or_default() += 1;
        }
        pub fn push_failure(&mut self, f: Value) {
            let sig = f["signature"].as_str().unwrap_or("").to_string();
            if self.failures.iter().filter(|x| x["signature"].as_str().unwrap_or("") == sig).count() < 2 {
                self.failures.push(f);
            }
        }
        pub fn merge(&mut self, o: Report) {
            self.evaluations += o.evaluations;
            self.nontrivial += o.nontrivial;
            self.excluded_known += o.excluded_known;
            self.discarded += o.discarded;
            for (k, v) in o.labels {
                *self.labels.entry(k).or_default() += v;
            }
            for s in o.samples {
                if self.samples.len() < 10 {
                    self.samples.push(s);
                }
            }
            for f in o.failures {
                self.push_failure(f);
            }
            for (k, v) in o.extra {
                self.extra.insert(k, v);
            }
        }
        pub fn to_json(&self) -> Value {
            json!({
                "evaluations": self.evaluations, "nontrivial": self.nontrivial,
                "excluded_known": self.excluded_known, "discarded": self.discarded,
                "labels": self.labels, "samples": self.samples, "failures": self.failures, "extra": self.extra,
            })
        }
    }

    /// the failure json is carried through proptest's error message
    pub fn parse_failure(msg: &str) -> Value {
        if msg.starts_with("Test aborted") {
            return json!({"signature": "harness-abort", "message": msg});
        }
        if let Some(start) = msg.find('{') {
            let mut it = serde_json::Deserializer::from_str(&msg[start..]).into_iter::<Value>();
            if let Some(Ok(v)) = it.next() {
                return v;
            }
        }
        json!({"signature": "unparsed", "message": msg})
    }

    /// serde compatibility as *requested* by the driver (falls back to what was compiled in): a
    /// feature table that switches serde-compat on behind the user's back must not go unnoticed
    pub fn serde_requested() -> bool {
        match std::env::var("VERIF_E1_SERDE_COMPAT").as_deref() {
            Ok("0") => false,
            Ok("1") => true,
            _ => cfg!(feature = "serde-compat"),
        }
    }

    pub fn features() -> Value {
        json!({"serde_compat": cfg!(feature = "serde-compat"), "no_serde_warnings": cfg!(feature = "no-serde-warnings")})
    }

    /// Acts as `main`: mode, tier, seed and output file come from the environment.
    #[test]
    fn verif_main() {
        let Ok(mode) = std::env::var("VERIF_E1_MODE") else { return };
        let tier = std::env::var("VERIF_E1_TIER").unwrap_or_else(|_| "quick".into());
        let seed: u64 = std::env::var("VERIF_SEED").ok().and_then(|s| s.parse().ok()).unwrap_or(1);
        let out = std::env::var("VERIF_E1_OUT").expect("VERIF_E1_OUT");
        let exclude: Vec<String> = std::env::var("VERIF_E1_EXCLUDE")
            .unwrap_or_default()
            .split(',')
            .filter(|s| !s.is_empty())
            .map(|s| s.to_string())
            .collect();
        std::panic::set_hook(Box::new(|_| {}));
        let report = match mode.as_str() {
            "c09" => c09_run(&tier, seed, &exclude),
            "c16" => c16_run(&tier, seed, &exclude),
            "c10" => c10_run(&tier, seed, &exclude),
            "replay" => {
                let case: Value =
                    serde_json::from_str(&std::fs::read_to_string(std::env::var("VERIF_E1_REPLAY").unwrap()).unwrap()).unwrap();
                let mut r = Report::default();
                r.evaluations = 1;
                let f = match case["kind"].as_str() {
                    Some("c09") => c09_replay(&case),
                    Some("c16") => c16_replay(&case),
                    Some("c10") => c10_replay(&case),
                    _ => Some(json!({"signature": "bad-replay", "message": "unknown replay kind"})),
                };
                if let Some(f) = f {
                    r.failures.push(f);
                }
                r
            }
            "expand" => {
                // batch expansion service: one item per entry of a json array; answers
                // ok / err / panic / notanitem per item (used as pre-screen by the corpus engine)
                let items: Vec<String> =
                    serde_json::from_str(&std::fs::read_to_string(std::env::var("VERIF_E1_REPLAY").unwrap()).unwrap()).unwrap();
                let mut r = Report::default();
                let verdicts: Vec<Value> = items
                    .iter()
                    .map(|src| match expand(src) {
                        Expanded::Ok(_) => json!("ok"),
                        Expanded::Err(e) => json!({"err": e}),
                        Expanded::Panic(p) => json!({"panic": p}),
                        Expanded::NotAnItem(e) => json!({"notanitem": e}),
                    })
                    .collect();
                r.evaluations = items.len() as u64;
                r.extra.insert("verdicts".into(), json!(verdicts));
                r
            }
            other => panic!("unknown mode {other}"),
        };
        let mut j = report.to_json();
        j["features"] = features();
        std::fs::write(out, serde_json::to_string_pretty(&j).unwrap()).unwrap();
    }
}
