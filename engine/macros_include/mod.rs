// placeholder
