// C16: the derive is total. Items come from a grammar that is WIDER than the supported
// fragment: every shape x any subset of ts/serde keys at container/variant/field level with
// valid values, invalid values, unknown keys, duplicates x generics x unusual identifiers.
// Oracle: (1) never a panic, (2) documented incompatibilities (Appendix D of DESIGN.md) are
// rejected, (3) an unknown `ts` key is rejected and named.

#[derive(Clone, Debug)]
struct AttrSpec {
    serde: bool,
    key: String,
    /// rendered value including the `= ` / parentheses, may be empty
    val: String,
    /// well-formed for its key (right literal kind, valid inflection, parseable type)
    well_formed: bool,
    /// key exists in the ts table of its position
    known_ts: bool,
}

#[derive(Clone, Debug)]
struct AttrList {
    serde: bool,
    attrs: Vec<AttrSpec>,
}

#[derive(Clone, Debug)]
struct FieldSpec {
    name: Option<String>,
    ty: String,
    lists: Vec<AttrList>,
    doc: u8,
}

#[derive(Clone, Debug)]
enum Shape {
    Unit,
    Tuple(Vec<FieldSpec>),
    Named(Vec<FieldSpec>),
}

#[derive(Clone, Debug)]
struct VariantSpec {
    name: String,
    shape: Shape,
    lists: Vec<AttrList>,
    doc: u8,
}

#[derive(Clone, Debug)]
struct ItemSpec {
    is_enum: bool,
    name: String,
    generics: usize,
    lists: Vec<AttrList>,
    shape: Shape,
    variants: Vec<VariantSpec>,
    doc: u8,
}

const C16_GENERICS: &[(&str, &str)] = &[
    ("", ""),
    ("", ""),
    ("<T>", ""),
    ("<T, U>", ""),
    ("<'a, T>", ""),
    ("<T, const N: usize>", ""),
    ("<T, const N: usize = 4>", ""),
    ("<const N: usize, T>", ""),
    ("<T: Clone = i32>", ""),
    ("<T>", " where T: Clone"),
    ("<'a, 'b: 'a, T: 'a + Clone, U = String, const N: usize>", " where U: Default"),
];
const C16_TYPES: &[&str] = &[
    "i32", "String", "Option<i32>", "Vec<T>", "T", "&'a str", "[u8; N]", "(i32, T)", "Option<T>", "Box<Self>", "u64",
    "std::collections::HashMap<String, T>", "Vec<Option<U>>", "()", "[T; 3]", "Result<T, U>", "std::marker::PhantomData<T>",
];
const C16_IDENTS: &[&str] = &[
    "a", "b", "foo_bar", "fooBar", "FooBar", "Foo_Bar", "_x", "x_", "a__b", "__", "___", "r#type", "r#fn", "größe", "Ärger",
    "中文", "ß", "type_", "x1", "X", "_1", "A", "Self_", "string", "never", "null",
];
const C16_TYPE_IDENTS: &[&str] = &["S", "Foo", "foo", "r#type", "Größe", "_T", "T1", "Array", "Ünï", "中"];
const C16_RULES: &[&str] = &[
    "lowercase", "UPPERCASE", "camelCase", "snake_case", "PascalCase", "SCREAMING_SNAKE_CASE", "kebab-case",
    "SCREAMING-KEBAB-CASE",
];
const C16_STRINGS: &[&str] = &["t", "type", "kind", "a-b", "a b", "1x", "", "ü", "$", "data", "T"];

// (key, value kinds: 0 flag, 1 string, 2 inflection, 3 type-in-string, 4 expr, 5 concrete(..), 6 bound, 7 optional)
const TS_STRUCT_KEYS: &[(&str, u8)] = &[
    ("crate", 8), ("as", 3), ("type", 1), ("rename", 4), ("rename_all", 2), ("tag", 1), ("export", 0), ("export_to", 4), ("concrete", 5),
    ("bound", 6), ("optional_fields", 7),
];
const TS_ENUM_KEYS: &[(&str, u8)] = &[
    ("crate", 8), ("as", 3), ("type", 1), ("rename", 4), ("rename_all", 2), ("rename_all_fields", 2), ("export_to", 4), ("export", 0),
    ("tag", 1), ("content", 1), ("untagged", 0), ("concrete", 5), ("bound", 6),
];
const TS_VARIANT_KEYS: &[(&str, u8)] =
    &[("as", 3), ("type", 1), ("rename", 4), ("rename_all", 2), ("inline", 0), ("skip", 0), ("untagged", 0)];
const TS_FIELD_KEYS: &[(&str, u8)] =
    &[("as", 3), ("type", 1), ("rename", 1), ("inline", 0), ("skip", 0), ("optional", 7), ("flatten", 0)];
const SERDE_STRUCT_KEYS: &[(&str, u8)] =
    &[("rename", 4), ("rename_all", 2), ("tag", 1), ("bound", 6), ("deny_unknown_fields", 0), ("default", 0)];
const SERDE_ENUM_KEYS: &[(&str, u8)] = &[
    ("rename", 4), ("rename_all", 2), ("rename_all_fields", 2), ("tag", 1), ("content", 1), ("untagged", 0), ("bound", 6),
];
const SERDE_VARIANT_KEYS: &[(&str, u8)] = &[("rename", 4), ("rename_all", 2), ("skip", 0), ("untagged", 0)];
const SERDE_FIELD_KEYS: &[(&str, u8)] = &[("rename", 1), ("skip", 0), ("flatten", 0), ("default", 0), ("with", 1)];
const UNKNOWN_KEYS: &[&str] = &[
    "foo", "skip_serializing_if = \"Option::is_none\"", "alias = \"x\"", "other", "transparent", "borrow", "getter = \"g\"",
    "remote = \"R\"", "krate = \"serde\"", "rename(serialize = \"a\")", "rename_all(serialize = \"camelCase\")",
    "bound(serialize = \"T: Clone\")", "default = \"path::to\"", "skip_serializing", "skip_deserializing",
    "deserialize_with = \"f\"", "from = \"X\"", "expecting = \"e\"", "variant_identifier", "nullable", "optionals", "Rename = \"x\"",
    "export_To = \"x\"", "flaten",
];

fn c16_value(kind: u8, w: u32, good: bool) -> (String, bool) {
    let pick = |xs: &[&str]| xs[(w as usize) % xs.len()].to_string();
    if !good {
        // wrong literal kind / malformed content
        return match kind {
            0 => (" = true".into(), false),
            1 => (pick(&[" = 5", " = true", "", " = 'c'", " = b\"x\"", "(\"x\")"]), false),
            2 => (pick(&[" = \"Camel\"", " = \"camelcase\"", " = 3", "", " = \"\"", " = \"snake-case\""]), false),
            3 => (pick(&[" = \"Vec<\"", " = 7", "", " = \"\"", " = \"fn\"", " = \"1 + 2\""]), false),
            4 => (pick(&["", " = ", " = +"]), false),
            5 => (pick(&["", " = T", "(T)", "(T = )", "(= i32)", "(\"T\" = i32)"]), false),
            6 => (pick(&[" = 5", "", " = \"T TS\"", " = \"where\""]), false),
            8 => (pick(&[" = 5", "", " = \"::ts_rs::\"", " = \"1x\""]), false),
            _ => (pick(&[" = null", " = \"nullable\"", " = 1", " = "]), false),
        };
    }
    match kind {
        0 => (String::new(), true),
        1 => (format!(" = {:?}", pick(C16_STRINGS)), true),
        2 => (format!(" = {:?}", pick(C16_RULES)), true),
        3 => (format!(" = {:?}", pick(&["i32", "String", "Vec<i32>", "Option<_>", "Vec<_>", "(i32, String)", "Option<String>", "T", "_"])), true),
        4 => (pick(&[" = \"Renamed\"", " = \"a-b\"", " = \"x/\"", " = \"x/y.ts\"", " = concat!(\"A\", \"b\")", " = \"../up/\"", " = NAME_CONST", " = \"\""]), true),
        5 => (pick(&["(T = i32)", "(T = String)", "(T = i32, U = String)", "(U = Vec<i32>)", "(X = i32)", "()"]), true),
        6 => (pick(&[" = \"T: ::ts_rs::TS\"", " = \"\"", " = \"T: Clone, U: ::ts_rs::TS\""]), true),
        8 => (pick(&[" = \"::ts_rs\"", " = \"ts_rs\"", " = \"crate::reexport::ts_rs\""]), true),
        _ => (pick(&["", "", " = nullable"]), true),
    }
}

fn c16_attr_list(words: &[u32], position: u8) -> AttrList {
    // position: 0 struct, 1 enum, 2 variant, 3 field
    let mut it = words.iter().copied();
    let mut next = || it.next().unwrap_or(0);
    let serde = next() % 3 == 0;
    let (known, other): (&[(&str, u8)], &[(&str, u8)]) = match (position, serde) {
        (0, false) => (TS_STRUCT_KEYS, TS_ENUM_KEYS),
        (1, false) => (TS_ENUM_KEYS, TS_FIELD_KEYS),
        (2, false) => (TS_VARIANT_KEYS, TS_FIELD_KEYS),
        (_, false) => (TS_FIELD_KEYS, TS_STRUCT_KEYS),
        (0, true) => (SERDE_STRUCT_KEYS, TS_STRUCT_KEYS),
        (1, true) => (SERDE_ENUM_KEYS, TS_ENUM_KEYS),
        (2, true) => (SERDE_VARIANT_KEYS, TS_VARIANT_KEYS),
        (_, true) => (SERDE_FIELD_KEYS, TS_FIELD_KEYS),
    };
    let ts_table: &[(&str, u8)] = match position {
        0 => TS_STRUCT_KEYS,
        1 => TS_ENUM_KEYS,
        2 => TS_VARIANT_KEYS,
        _ => TS_FIELD_KEYS,
    };
    let n = 1 + (next() % 3) as usize + if next() % 5 == 0 { 2 } else { 0 };
    let mut attrs = vec![];
    for _ in 0..n {
        let sel = next() % 40;
        let w = next();
        if sel < 34 {
            let (k, kind) = known[(w as usize) % known.len()];
            let (val, wf) = c16_value(kind, next(), next() % 20 != 0);
            attrs.push(AttrSpec { serde, key: k.into(), val, well_formed: wf, known_ts: !serde });
        } else if sel < 37 {
            // a key that belongs to another position's table
            let (k, kind) = other[(w as usize) % other.len()];
            let (val, wf) = c16_value(kind, next(), true);
            let known_ts = ts_table.iter().any(|(x, _)| *x == k);
            // in a serde list only keys of the serde table of this position are "clean"
            let in_own_table = if serde { known.iter().any(|(x, kk)| *x == k && *kk == kind) } else { known_ts };
            attrs.push(AttrSpec { serde, key: k.into(), val, well_formed: wf && in_own_table, known_ts });
        } else {
            let u = UNKNOWN_KEYS[(w as usize) % UNKNOWN_KEYS.len()];
            let key: String = u.chars().take_while(|c| c.is_alphanumeric() || *c == '_').collect();
            let val = u[key.len()..].to_string();
            let known_ts = ts_table.iter().any(|(x, _)| *x == key);
            attrs.push(AttrSpec { serde, key, val, well_formed: false, known_ts });
        }
    }
    AttrList { serde, attrs }
}

fn c16_render_lists(lists: &[AttrList], doc: u8, out: &mut String) {
    match doc {
        1 => out.push_str("/// a doc line\n"),
        2 => out.push_str("/// first\n///\n/// third */ not the end\n"),
        3 => out.push_str("#[doc = \"attr doc\"]\n"),
        4 => out.push_str("#[doc = concat!(\"non\", \"literal\")]\n"),
        5 => out.push_str("/** block\n\n doc */\n"),
        6 => out.push_str("#[doc(hidden)]\n"),
        _ => (),
    }
    for l in lists {
        out.push_str(if l.serde { "#[serde(" } else { "#[ts(" });
        let parts: Vec<String> = l.attrs.iter().map(|a| format!("{}{}", a.key, a.val)).collect();
        out.push_str(&parts.join(", "));
        out.push_str(")]\n");
    }
}

fn c16_render_fields(shape: &Shape, out: &mut String) {
    match shape {
        Shape::Unit => (),
        Shape::Tuple(fs) => {
            out.push('(');
            for f in fs {
                c16_render_lists(&f.lists, f.doc, out);
                out.push_str(&f.ty);
                out.push_str(", ");
            }
            out.push(')');
        }
        Shape::Named(fs) => {
            out.push_str(" {\n");
            for f in fs {
                c16_render_lists(&f.lists, f.doc, out);
                out.push_str(&format!("{}: {},\n", f.name.as_ref().unwrap(), f.ty));
            }
            out.push('}');
        }
    }
}

fn c16_render(item: &ItemSpec) -> String {
    let mut out = String::new();
    c16_render_lists(&item.lists, item.doc, &mut out);
    let (g, w) = C16_GENERICS[item.generics];
    if item.is_enum {
        out.push_str(&format!("enum {}{}{} {{\n", item.name, g, w));
        for v in &item.variants {
            c16_render_lists(&v.lists, v.doc, &mut out);
            out.push_str(&v.name);
            c16_render_fields(&v.shape, &mut out);
            out.push_str(",\n");
        }
        out.push('}');
    } else {
        out.push_str(&format!("struct {}{}", item.name, g));
        match &item.shape {
            Shape::Named(_) => {
                out.push_str(w);
                c16_render_fields(&item.shape, &mut out);
            }
            other => {
                c16_render_fields(other, &mut out);
                out.push_str(w);
                out.push(';');
            }
        }
    }
    out
}

fn c16_fields(words: &[u32], named: bool, n: usize) -> Vec<FieldSpec> {
    let mut fields = vec![];
    for i in 0..n {
        let base = i * 40;
        let w = |k: usize| words.get(base + k).copied().unwrap_or(0);
        let nlists = match w(0) % 6 {
            0 | 1 | 2 => 0,
            3 | 4 => 1,
            _ => 2,
        };
        let mut lists = vec![];
        for l in 0..nlists {
            let start = (base + 4 + l * 16).min(words.len());
            let end = (start + 16).min(words.len());
            lists.push(c16_attr_list(&words[start..end], 3));
        }
        let mut name = C16_IDENTS[(w(1) as usize) % C16_IDENTS.len()].to_string();
        if fields.iter().any(|f: &FieldSpec| f.name.as_deref() == Some(name.as_str())) {
            name = format!("{}_{i}", name.trim_start_matches("r#"));
        }
        fields.push(FieldSpec {
            name: if named { Some(name) } else { None },
            ty: C16_TYPES[(w(2) as usize) % C16_TYPES.len()].to_string(),
            lists,
            doc: if w(3) % 4 == 0 { (w(3) / 4 % 7) as u8 } else { 0 },
        });
    }
    fields
}

fn c16_shape(words: &[u32], sel: u32) -> Shape {
    match sel % 8 {
        0 => Shape::Unit,
        1 => Shape::Tuple(vec![]),
        2 => Shape::Named(vec![]),
        3 => Shape::Tuple(c16_fields(words, false, 1)),
        4 => Shape::Tuple(c16_fields(words, false, 2 + (sel / 8 % 2) as usize)),
        _ => Shape::Named(c16_fields(words, true, 1 + (sel / 8 % 3) as usize)),
    }
}

fn c16_item(words: &[u32]) -> ItemSpec {
    let w = |k: usize| words.get(k).copied().unwrap_or(0);
    let is_enum = w(0) % 2 == 0;
    let nlists = match w(1) % 6 {
        0 => 0,
        1 | 2 | 3 => 1,
        4 => 2,
        _ => 3,
    };
    let mut lists = vec![];
    for l in 0..nlists {
        lists.push(c16_attr_list(&words[(8 + l * 16).min(words.len())..(24 + l * 16).min(words.len())], if is_enum { 1 } else { 0 }));
    }
    let mut item = ItemSpec {
        is_enum,
        name: C16_TYPE_IDENTS[(w(2) as usize) % C16_TYPE_IDENTS.len()].to_string(),
        generics: (w(3) as usize) % C16_GENERICS.len(),
        lists,
        shape: Shape::Unit,
        variants: vec![],
        doc: if w(4) % 3 == 0 { (w(4) / 3 % 7) as u8 } else { 0 },
    };
    let rest = &words[60.min(words.len())..];
    if is_enum {
        let nv = (w(5) % 5) as usize;
        for v in 0..nv {
            let vw = &rest[(v * 140).min(rest.len())..((v + 1) * 140).min(rest.len())];
            let g = |k: usize| vw.get(k).copied().unwrap_or(0);
            let nl = match g(0) % 5 {
                0 | 1 | 2 => 0,
                3 => 1,
                _ => 2,
            };
            let mut lists = vec![];
            for l in 0..nl {
                lists.push(c16_attr_list(&vw[(4 + l * 16).min(vw.len())..(20 + l * 16).min(vw.len())], 2));
            }
            let mut name = ["A", "B", "Foo_Bar", "fooBar", "r#type", "Ärger", "__", "X1", "中"][(g(1) as usize) % 9].to_string();
            if item.variants.iter().any(|x: &VariantSpec| x.name == name) {
                name = format!("{}{v}", name.trim_start_matches("r#"));
            }
            item.variants.push(VariantSpec {
                name,
                shape: c16_shape(&vw[40.min(vw.len())..], g(2)),
                lists,
                doc: if g(3) % 4 == 0 { (g(3) / 4 % 7) as u8 } else { 0 },
            });
        }
    } else {
        item.shape = c16_shape(rest, w(5));
    }
    item
}

// ---- expectation model ----------------------------------------------------------------------

#[derive(Default, Debug)]
struct Merged {
    /// keys present with a well-formed value in `ts` lists
    ts: BTreeSet<String>,
    /// keys in serde lists that consist only of well-formed known keys ("clean" lists)
    serde_clean: BTreeSet<String>,
    /// any mention of a key anywhere (incl. malformed / unclean lists)
    mentioned: BTreeSet<String>,
    /// defects that make the ts parser fail: (kind, key)
    ts_defects: Vec<(String, String)>,
}

fn c16_merge(lists: &[AttrList]) -> Merged {
    let mut m = Merged::default();
    for l in lists {
        for a in &l.attrs {
            m.mentioned.insert(a.key.clone());
        }
        if l.serde {
            // every entry of a serde list stands for itself: an unknown key, or a known key in a
            // form ts-rs cannot read, is skipped up to the next comma and leaves its neighbours
            // in force (C10)
            for a in &l.attrs {
                if a.well_formed {
                    m.serde_clean.insert(a.key.clone());
                }
            }
        } else {
            for a in &l.attrs {
                if !a.known_ts {
                    m.ts_defects.push(("unknown-key".into(), a.key.clone()));
                } else if !a.well_formed {
                    m.ts_defects.push(("malformed-value".into(), a.key.clone()));
                } else {
                    m.ts.insert(a.key.clone());
                }
            }
        }
    }
    m
}

/// Reasons why this item must be rejected (empty = no documented reason known to the model).
fn c16_expected_rejections(item: &ItemSpec) -> Vec<String> {
    let serde_on = cfg!(feature = "serde-compat");
    let mut why = vec![];
    let has = |m: &Merged, k: &str| m.ts.contains(k) || (serde_on && m.serde_clean.contains(k));
    let c = c16_merge(&item.lists);
    for (kind, key) in &c.ts_defects {
        why.push(format!("container:{kind}:{key}"));
    }
    if item.doc == 4 {
        why.push("container:doc-non-literal".into());
    }
    let overridden = c.mentioned.contains("type") || c.mentioned.contains("as");
    let pairs = |m: &Merged, a: &str, bs: &[&str], pos: &str, why: &mut Vec<String>| {
        if has(m, a) {
            for b in bs {
                if has(m, b) {
                    why.push(format!("{pos}:{a}x{b}"));
                }
            }
        }
    };
    let field_checks = |f: &FieldSpec, pos: &str, why: &mut Vec<String>| {
        let m = c16_merge(&f.lists);
        for (kind, key) in &m.ts_defects {
            why.push(format!("{pos}:{kind}:{key}"));
        }
        if f.doc == 4 {
            why.push(format!("{pos}:doc-non-literal"));
        }
        // #[ts(skip)] suppresses serde parsing on the field
        let serde_counts = serde_on && !m.ts.contains("skip");
        let has = |k: &str| m.ts.contains(k) || (serde_counts && m.serde_clean.contains(k));
        for (a, bs) in [("type", &["as", "inline", "flatten", "optional"][..]), ("flatten", &["as", "rename", "inline", "optional"][..])] {
            if has(a) {
                for b in bs {
                    if has(b) {
                        why.push(format!("{pos}:{a}x{b}"));
                    }
                }
            }
        }
        if f.name.is_none() {
            for k in ["flatten", "rename", "optional"] {
                if has(k) {
                    why.push(format!("{pos}:tuple-field-{k}"));
                }
            }
        }
        // (a field skipped through serde has no binding either: nothing is asked of it)
        if serde_counts && m.serde_clean.contains("with") && !m.mentioned.contains("skip") && !m.mentioned.contains("as") && !m.mentioned.contains("type") {
            why.push(format!("{pos}:serde-with-without-as-or-type"));
        }
    };
    if item.is_enum {
        pairs(&c, "type", &["as", "rename_all", "rename_all_fields", "tag", "content", "untagged"], "enum", &mut why);
        pairs(&c, "as", &["rename_all", "rename_all_fields", "tag", "content", "untagged"], "enum", &mut why);
        pairs(&c, "untagged", &["tag", "content"], "enum", &mut why);
        if has(&c, "content") && !c.mentioned.contains("tag") {
            why.push("enum:content-without-tag".into());
        }
        if !overridden {
            for v in &item.variants {
                let m = c16_merge(&v.lists);
                for (kind, key) in &m.ts_defects {
                    why.push(format!("variant:{kind}:{key}"));
                }
                let serde_counts = serde_on && !m.ts.contains("skip");
                let vhas = |k: &str| m.ts.contains(k) || (serde_counts && m.serde_clean.contains(k));
                if vhas("as") && vhas("type") {
                    why.push("variant:asxtype".into());
                }
                if vhas("as") && vhas("rename_all") {
                    why.push("variant:asxrename_all".into());
                }
                if vhas("type") && vhas("rename_all") {
                    why.push("variant:typexrename_all".into());
                }
                if vhas("type") && vhas("inline") {
                    why.push("variant:typexinline".into());
                }
                if !matches!(v.shape, Shape::Named(_)) && vhas("rename_all") {
                    why.push("variant:rename_all-on-unit-or-tuple".into());
                }
                let skipped = m.mentioned.contains("skip");
                if !skipped {
                    match &v.shape {
                        Shape::Unit => (),
                        Shape::Tuple(fs) | Shape::Named(fs) => {
                            for f in fs {
                                field_checks(f, "variant-field", &mut why);
                            }
                        }
                    }
                }
            }
        }
    } else {
        pairs(&c, "type", &["as", "rename_all", "tag", "optional_fields"], "struct", &mut why);
        pairs(&c, "as", &["tag", "rename_all", "optional_fields"], "struct", &mut why);
        if !matches!(item.shape, Shape::Named(_)) {
            for k in ["tag", "rename_all", "optional_fields"] {
                if has(&c, k) {
                    why.push(format!("struct:{k}-on-unit-or-tuple"));
                }
            }
        }
        if !overridden {
            match &item.shape {
                Shape::Unit => (),
                Shape::Tuple(fs) | Shape::Named(fs) => {
                    for f in fs {
                        field_checks(f, "field", &mut why);
                    }
                }
            }
        }
    }
    why
}

fn c16_total_ts_defects(item: &ItemSpec) -> usize {
    let count = |lists: &[AttrList]| c16_merge(lists).ts_defects.len();
    let fields = |s: &Shape| match s {
        Shape::Unit => 0,
        Shape::Tuple(fs) | Shape::Named(fs) => fs.iter().map(|f| count(&f.lists) + (f.doc == 4) as usize).sum::<usize>(),
    };
    count(&item.lists)
        + (item.doc == 4) as usize
        + fields(&item.shape)
        + item.variants.iter().map(|v| count(&v.lists) + fields(&v.shape)).sum::<usize>()
}

fn c16_eval(item: &ItemSpec, exclude: &[String]) -> (Option<Value>, &'static str) {
    let src = c16_render(item);
    let expected = c16_expected_rejections(item);
    let total_defects = c16_total_ts_defects(item);
    let case = json!({"kind": "c16", "item": src, "expected_rejections": expected});
    match expand(&src) {
        Expanded::NotAnItem(_) => (None, "not_an_item"),
        Expanded::Panic(p) => {
            let sig = if p.contains("byte index") || p.contains("char boundary") || p.contains("out of range") || p.contains("begin <= end") {
                "panic-case-conversion-slice"
            } else {
                "derive-panic"
            };
            if exclude.iter().any(|e| e == sig) {
                return (None, "excluded_known");
            }
            (Some(json!({"signature": sig, "message": format!("the derive panicked: {p}"), "case": case})), "panic")
        }
        Expanded::Ok(_) => {
            if expected.is_empty() {
                (None, "accepted")
            } else {
                (
                    Some(json!({"signature": format!("accepted-{}", expected[0]),
                        "message": format!("item carries a documented incompatibility ({:?}) but the derive accepted it", expected), "case": case})),
                    "accepted",
                )
            }
        }
        Expanded::Err(msg) => {
            // (3) a single unknown ts key as the only defect: the message names it
            if expected.len() == 1 && total_defects == 1 && expected[0].contains(":unknown-key:") && msg.contains("Unknown attribute") {
                let key = expected[0].rsplit(':').next().unwrap();
                if !msg.contains(&format!("\"{key}\"")) {
                    return (
                        Some(json!({"signature": "unknown-key-not-named", "message": format!("unknown ts key `{key}` rejected with a message that does not name it: {msg}"), "case": case})),
                        "rejected",
                    );
                }
            }
            (None, if expected.is_empty() { "rejected_unmodelled" } else { "rejected_as_expected" })
        }
    }
}

fn c16_run(tier: &str, seed: u64, exclude: &[String]) -> Report {
    let cases = if tier == "thorough" { 1_500_000 } else { 150_000 };
    let nthreads = 16u64;
    let reports: Vec<Report> = std::thread::scope(|s| {
        let hs: Vec<_> = (0..nthreads)
            .map(|ti| {
                s.spawn(move || {
                    let strat = proptest::collection::vec(any::<u32>(), 700);
                    let mut runner = TestRunner::new_with_rng(
                        Config { cases: (cases / nthreads) as u32, failure_persistence: None, max_shrink_iters: 3000, ..Config::default() },
                        TestRng::from_seed(RngAlgorithm::ChaCha, &seed_bytes(seed.wrapping_mul(31).wrapping_add(ti) ^ 0xC16)),
                    );
                    let r = std::cell::RefCell::new(Report::default());
                    let distinct = std::cell::RefCell::new(HashSet::new());
                    let failed = std::cell::Cell::new(false);
                    let result = runner.run(&strat, |words| {
                        let item = c16_item(&words);
                        let (f, class) = c16_eval(&item, exclude);
                        if !failed.get() {
                            let mut rr = r.borrow_mut();
                            rr.evaluations += 1;
                            rr.label(class);
                            let reasons = c16_expected_rejections(&item);
                            if reasons.len() == 1 {
                                let r0 = &reasons[0];
                                let generic: String = if r0.contains(":unknown-key:") || r0.contains(":malformed-value:") {
                                    r0.rsplitn(2, ':').nth(1).unwrap_or(r0).to_string()
                                } else {
                                    r0.clone()
                                };
                                rr.label(&format!("single_reason/{generic}"));
                            }
                            if class == "excluded_known" {
                                rr.excluded_known += 1;
                            }
                            let src = c16_render(&item);
                            let nkeys = src.matches("#[ts(").count() + src.matches("#[serde(").count();
                            if (nkeys >= 2 || item.generics >= 2 || src.contains("r#") || !src.is_ascii()) && distinct.borrow_mut().insert(fnv(&src)) {
                                rr.nontrivial += 1;
                            }
                            if rr.samples.len() < 2 && nkeys >= 3 && rr.evaluations % 501 == 7 {
                                rr.samples.push(json!({"item": src, "verdict": class, "expected_rejections": c16_expected_rejections(&item)}));
                            }
                        }
                        match f {
                            None => Ok(()),
                            Some(f) => {
                                failed.set(true);
                                Err(TestCaseError::fail(f.to_string()))
                            }
                        }
                    });
                    if let Err(e) = result {
                        let f = parse_failure(&e.to_string());
                        r.borrow_mut().push_failure(f);
                    }
                    r.into_inner()
                })
            })
            .collect();
        hs.into_iter().map(|h| h.join().unwrap()).collect()
    });
    let mut total = Report::default();
    for r in reports {
        total.merge(r);
    }
    total
}

fn c16_replay(case: &Value) -> Option<Value> {
    let src = case["item"].as_str()?;
    let expected: Vec<String> =
        case["expected_rejections"].as_array().map(|a| a.iter().filter_map(|x| x.as_str().map(|s| s.to_string())).collect()).unwrap_or_default();
    match expand(src) {
        Expanded::Panic(p) => Some(json!({"signature": "derive-panic", "message": format!("the derive panicked: {p}"), "case": case})),
        Expanded::Ok(_) if !expected.is_empty() => {
            Some(json!({"signature": format!("accepted-{}", expected[0]), "message": "documented incompatibility accepted", "case": case}))
        }
        _ => None,
    }
}
