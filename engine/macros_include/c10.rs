// C10: `serde(X)` == `ts(X)`, ts wins, unknown serde is inert, no serde-compat => serde has no
// effect. Metamorphic oracle on real expansions (canon = multiset of leaf tokens).

#[derive(Clone, Debug)]
struct KV {
    key: &'static str,
    /// rendered value for the primary spelling (`= "x"` or empty for flags)
    val: String,
    /// a different value for the "both spellings, different values" transformation
    alt: Option<String>,
}

#[derive(Clone, Debug)]
struct C10Field {
    name: String,
    ty: &'static str,
    attrs: Vec<KV>,
    /// attributes that exist in `ts` spelling only (`as`, `inline`, `type`): written the same way
    /// on both sides of every relation
    ts_only: Vec<&'static str>,
}

#[derive(Clone, Debug)]
struct C10Variant {
    name: &'static str,
    /// 0 unit, 1 newtype, 2 struct
    shape: u8,
    attrs: Vec<KV>,
    ts_only: Vec<&'static str>,
    fields: Vec<C10Field>,
}

#[derive(Clone, Debug)]
struct C10Item {
    is_enum: bool,
    attrs: Vec<KV>,
    fields: Vec<C10Field>,
    variants: Vec<C10Variant>,
}

/// how one attribute position is spelled
#[derive(Clone, Copy, Debug, PartialEq)]
enum Spelling {
    Serde,
    Ts,
    /// `#[ts(k = val)] #[serde(k = alt)]`
    BothTsWins,
    /// `#[serde(k = val)] #[ts(k = val)]` (same value twice)
    BothSame,
    /// attribute dropped entirely (reference for serde-compat off)
    Stripped,
    /// a different spelling per key, two bits each in rendering order: 0 serde only, 1 ts only,
    /// 2 `ts(k = val)` + `serde(k = alt)`, 3 both with the same value
    Mixed(u32),
}

#[derive(Clone, Debug)]
struct Mode {
    spelling: Spelling,
    split_lists: bool,
    /// write the `#[serde(..)]` lists in front of the `#[ts(..)]` lists
    serde_first: bool,
    /// insert this junk into the serde list of attribute position `junk_at` (positions are
    /// numbered in rendering order), at list index `junk_idx` (clamped)
    junk: Option<(usize, usize, &'static str)>,
    /// `#[serde(a, b,)]`
    trailing_comma: bool,
    /// an empty `#[serde()]` attribute in front of the lists of this attribute position
    empty_list_at: Option<usize>,
}

const C10_JUNK: &[&str] = &[
    "skip_serializing_if = \"Option::is_none\"",
    "alias = \"zzz\"",
    "other",
    "borrow",
    "getter = \"g\"",
    "remote = \"Rem\"",
    "crate = \"serde\"",
    "transparent",
    "skip_serializing",
    "skip_deserializing",
    "deserialize_with = \"f\"",
    "serialize_with = \"f\"",
    "expecting = \"e\"",
    "from = \"X\"",
    "try_from = \"X\"",
    "into = \"X\"",
    "variant_identifier",
    "alias = \"a\", alias = \"b\"",
    "bound(serialize = \"T: Clone\", deserialize = \"T: Clone\")",
    // long non-ASCII values (whatever is done with the text of an ignored attribute must respect
    // character boundaries)
    "alias = \"ありがとうございますありがとうございますありがとうございますありがとうございます\"",
    "alias = \"xありがとうございますありがとうございますありがとうございますありがとうございます\"",
    "alias = \"xxありがとうございますありがとうございますありがとうございますありがとうございます\"",
    "expecting = \"eine Größenangabe in Metern, größer als null und höchstens fünfhundert – bitte prüfen\"",
    "deserialize_with = \"a::b::c::d::e::f::g::h::i::j::k::l::m::n::o::p::q::r::s::t::u::v::ünï::ß\"",
];
/// unparseable forms of KNOWN keys (known finding: the whole list is dropped)
const C10_JUNK_KNOWN_KEY_FORMS: &[&str] = &["rename(serialize = \"a\", deserialize = \"b\")", "rename_all(serialize = \"camelCase\")"];

fn c10_kv(key: &'static str, w: u32) -> KV {
    let rules = C09_RULES;
    let names = ["ren", "Ren2", "a-b", "x y", "1z", "ünï", "$d"];
    match key {
        "rename" => KV { key, val: format!(" = {:?}", names[w as usize % names.len()]), alt: Some(format!(" = {:?}", names[(w as usize + 1) % names.len()])) },
        "rename_all" | "rename_all_fields" => KV {
            key,
            val: format!(" = {:?}", rules[w as usize % rules.len()]),
            alt: Some(format!(" = {:?}", rules[(w as usize + 3) % rules.len()])),
        },
        "tag" => KV { key, val: format!(" = {:?}", ["t", "type", "kind"][w as usize % 3]), alt: Some(format!(" = {:?}", ["t", "type", "kind"][(w as usize + 1) % 3])) },
        "content" => KV { key, val: format!(" = {:?}", ["c", "data", "content"][w as usize % 3]), alt: Some(format!(" = {:?}", ["c", "data", "content"][(w as usize + 1) % 3])) },
        _ => KV { key, val: String::new(), alt: None },
    }
}

fn c10_fields(words: &[u32], n: usize) -> Vec<C10Field> {
    let names = ["first_name", "lastName", "r#type", "x", "_y", "größe", "a1_b"];
    let tys = ["i32", "String", "Option<i32>", "Inner", "Vec<Inner>", "Box<Other<T>>"];
    (0..n)
        .map(|i| {
            let w = |k: usize| words.get(i * 6 + k).copied().unwrap_or(0);
            let mut attrs = vec![];
            match w(0) % 8 {
                0 => attrs.push(c10_kv("rename", w(1))),
                1 => attrs.push(c10_kv("skip", 0)),
                2 => attrs.push(c10_kv("flatten", 0)),
                // two keys on one field: a field that is skipped *and* flattened / renamed
                6 => {
                    attrs.push(c10_kv("skip", 0));
                    attrs.push(c10_kv("flatten", 0));
                }
                7 => {
                    attrs.push(c10_kv("rename", w(1)));
                    attrs.push(c10_kv("skip", 0));
                }
                _ => (),
            }
            let mut name = names[w(2) as usize % names.len()].to_string();
            if i > 0 {
                name = format!("{}_{i}", name.trim_start_matches("r#"));
            }
            let ty = tys[w(3) as usize % tys.len()];
            let mut ts_only = vec![];
            if !attrs.iter().any(|a| a.key == "flatten") {
                match w(4) % 10 {
                    0 => ts_only.push("as = \"Inner\""),
                    1 if ty.contains("Inner") => ts_only.push("inline"),
                    2 => ts_only.push("type = \"string | null\""),
                    3 => ts_only.extend(["as = \"Vec<Inner>\"", "inline"]),
                    _ => (),
                }
            }
            C10Field { name, ty, attrs, ts_only }
        })
        .collect()
}

fn c10_item(words: &[u32]) -> C10Item {
    let w = |k: usize| words.get(k).copied().unwrap_or(0);
    let is_enum = w(0) % 2 == 0;
    let mut attrs = vec![];
    if w(1) % 3 == 0 {
        attrs.push(c10_kv("rename", w(2)));
    }
    if w(3) % 2 == 0 {
        attrs.push(c10_kv("rename_all", w(4)));
    }
    if !is_enum {
        if w(5) % 3 == 0 {
            attrs.push(c10_kv("tag", w(6)));
        }
        return C10Item { is_enum, attrs, fields: c10_fields(&words[20.min(words.len())..], 1 + (w(7) % 3) as usize), variants: vec![] };
    }
    if w(5) % 3 == 0 {
        attrs.push(c10_kv("rename_all_fields", w(6)));
    }
    let repr = w(8) % 4;
    match repr {
        1 => attrs.push(c10_kv("tag", w(9))),
        2 => {
            attrs.push(c10_kv("tag", w(9)));
            attrs.push(c10_kv("content", w(10)));
        }
        3 => attrs.push(c10_kv("untagged", 0)),
        _ => (),
    }
    let vnames = ["Alpha", "beta_gamma", "HTTPError"];
    let nv = 1 + (w(11) % 3) as usize;
    let mut variants = vec![];
    for v in 0..nv {
        let vw = &words[(40 + v * 30).min(words.len())..];
        let g = |k: usize| vw.get(k).copied().unwrap_or(0);
        let shape = (g(0) % 3) as u8;
        let mut vattrs = vec![];
        match g(1) % 6 {
            0 => vattrs.push(c10_kv("rename", g(2))),
            1 => vattrs.push(c10_kv("skip", 0)),
            2 if v == nv - 1 => vattrs.push(c10_kv("untagged", 0)),
            3 if shape == 2 => vattrs.push(c10_kv("rename_all", g(2))),
            _ => (),
        }
        let fields = match shape {
            0 => vec![],
            1 => {
                let mut f = c10_fields(&vw[6.min(vw.len())..], 1);
                f[0].attrs.retain(|a| a.key == "skip");
                f
            }
            _ => c10_fields(&vw[6.min(vw.len())..], 1 + (g(3) % 2) as usize),
        };
        // a type for the whole variant (`as` is a ts-only key)
        let mut ts_only = vec![];
        if !vattrs.iter().any(|a| a.key == "rename_all") {
            match g(4) % 8 {
                0 => ts_only.push("as = \"Inner\""),
                1 => ts_only.push("as = \"Option<Inner>\""),
                _ => (),
            }
        }
        variants.push(C10Variant { name: vnames[v], shape, attrs: vattrs, ts_only, fields });
    }
    C10Item { is_enum, attrs, fields: vec![], variants }
}

struct Renderer<'a> {
    mode: &'a Mode,
    pos: usize,
    out: String,
    moved: usize,
    junk_next_to_supported: bool,
    keys: u32,
    mixed_kinds: [u32; 4],
}

impl Renderer<'_> {
    fn attrs(&mut self, attrs: &[KV], ts_only: &[&'static str]) {
        if !ts_only.is_empty() {
            self.out.push_str(&format!("#[ts({})] ", ts_only.join(", ")));
        }
        let pos = self.pos;
        self.pos += 1;
        let junk = match self.mode.junk {
            Some((at, idx, text)) if at == pos => Some((idx, text)),
            _ => None,
        };
        let mut serde: Vec<String> = vec![];
        let mut ts: Vec<String> = vec![];
        for a in attrs {
            match self.mode.spelling {
                Spelling::Serde => serde.push(format!("{}{}", a.key, a.val)),
                Spelling::Ts => {
                    ts.push(format!("{}{}", a.key, a.val));
                    self.moved += 1;
                }
                Spelling::BothTsWins => {
                    ts.push(format!("{}{}", a.key, a.val));
                    serde.push(format!("{}{}", a.key, a.alt.as_ref().unwrap_or(&a.val)));
                    self.moved += 1;
                }
                Spelling::BothSame => {
                    ts.push(format!("{}{}", a.key, a.val));
                    serde.push(format!("{}{}", a.key, a.val));
                    self.moved += 1;
                }
                Spelling::Stripped => (),
                Spelling::Mixed(mask) => {
                    let kind = (mask >> (2 * (self.keys % 16))) & 3;
                    self.mixed_kinds[kind as usize] += 1;
                    match kind {
                        0 => serde.push(format!("{}{}", a.key, a.val)),
                        1 => ts.push(format!("{}{}", a.key, a.val)),
                        2 => {
                            ts.push(format!("{}{}", a.key, a.val));
                            serde.push(format!("{}{}", a.key, a.alt.as_ref().unwrap_or(&a.val)));
                        }
                        _ => {
                            ts.push(format!("{}{}", a.key, a.val));
                            serde.push(format!("{}{}", a.key, a.val));
                        }
                    }
                }
            }
            self.keys += 1;
        }
        if let Some((idx, text)) = junk {
            let at = idx.min(serde.len());
            if !serde.is_empty() {
                self.junk_next_to_supported = true;
            }
            serde.insert(at, text.to_string());
        }
        if self.mode.empty_list_at == Some(pos) {
            self.out.push_str("#[serde()] ");
        }
        let lists = if self.mode.serde_first { [("serde", serde), ("ts", ts)] } else { [("ts", ts), ("serde", serde)] };
        for (name, list) in lists {
            if list.is_empty() {
                continue;
            }
            if self.mode.split_lists {
                for a in list {
                    self.out.push_str(&format!("#[{name}({a})] "));
                }
            } else {
                self.out.push_str(&format!("#[{name}({}{})] ", list.join(", "), if self.mode.trailing_comma && name == "serde" { "," } else { "" }));
            }
        }
    }
    fn fields(&mut self, fs: &[C10Field], named: bool) {
        for f in fs {
            self.attrs(&f.attrs, &f.ts_only);
            if named {
                self.out.push_str(&format!("{}: {}, ", f.name, f.ty));
            } else {
                self.out.push_str(&format!("{}, ", f.ty));
            }
        }
    }
}

/// returns (source, number of keys whose spelling moved, junk adjacent to a supported key, positions)
fn c10_render(item: &C10Item, mode: &Mode) -> (String, usize, bool, usize) {
    let mut r = Renderer { mode, pos: 0, out: String::new(), moved: 0, junk_next_to_supported: false, keys: 0, mixed_kinds: [0; 4] };
    r.attrs(&item.attrs, &[]);
    if item.is_enum {
        r.out.push_str("enum Zq9<T> { ");
        for v in &item.variants {
            r.attrs(&v.attrs, &v.ts_only);
            r.out.push_str(v.name);
            match v.shape {
                0 => (),
                1 => {
                    r.out.push('(');
                    r.fields(&v.fields, false);
                    r.out.push(')');
                }
                _ => {
                    r.out.push_str(" { ");
                    r.fields(&v.fields, true);
                    r.out.push_str(" }");
                }
            }
            r.out.push_str(", ");
        }
        r.out.push_str("Last(T) }");
    } else {
        r.out.push_str("struct Zq9<T> { ");
        r.fields(&item.fields, true);
        r.out.push_str("tail: T }");
    }
    (r.out, r.moved, r.junk_next_to_supported, r.pos)
}

/// attribute positions (in rendering order) that are *fields* carrying `skip`
fn c10_skipped_field_positions(item: &C10Item) -> Vec<usize> {
    let mut out = vec![];
    let mut pos = 1; // 0 = the container
    let mut fields = |fs: &[C10Field], pos: &mut usize| {
        for f in fs {
            if f.attrs.iter().any(|a| a.key == "skip") {
                out.push(*pos);
            }
            *pos += 1;
        }
    };
    if item.is_enum {
        for v in &item.variants {
            pos += 1;
            fields(&v.fields, &mut pos);
        }
    } else {
        fields(&item.fields, &mut pos);
    }
    out
}

fn c10_expand_canon(src: &str) -> Result<Vec<String>, String> {
    match expand(src) {
        Expanded::Ok(ts) => Ok(canon(ts)),
        Expanded::Err(e) => Err(format!("error: {e}")),
        Expanded::Panic(p) => Err(format!("panic: {p}")),
        Expanded::NotAnItem(e) => Err(format!("notanitem: {e}")),
    }
}

fn c10_diff(a: &[String], b: &[String]) -> String {
    let mut only_a: Vec<&String> = vec![];
    let mut only_b: Vec<&String> = vec![];
    let (mut i, mut j) = (0, 0);
    while i < a.len() || j < b.len() {
        if i < a.len() && (j >= b.len() || a[i] < b[j]) {
            only_a.push(&a[i]);
            i += 1;
        } else if j < b.len() && (i >= a.len() || b[j] < a[i]) {
            only_b.push(&b[j]);
            j += 1;
        } else {
            i += 1;
            j += 1;
        }
    }
    format!("tokens only in left: {:?}; only in right: {:?}", only_a.iter().take(8).collect::<Vec<_>>(), only_b.iter().take(8).collect::<Vec<_>>())
}

/// one metamorphic relation: expansion(left) == expansion(right)
fn c10_relation(name: &str, left: &str, right: &str, sig: &str) -> Option<Value> {
    let case = json!({"kind": "c10", "relation": name, "left": left, "right": right, "features": features()});
    let (l, r) = (c10_expand_canon(left), c10_expand_canon(right));
    match (l, r) {
        (Ok(a), Ok(b)) => {
            if a == b {
                None
            } else {
                Some(json!({"signature": sig, "message": format!("{name}: expansions differ; {}", c10_diff(&a, &b)), "case": case}))
            }
        }
        (Err(e), Ok(_)) if e.starts_with("notanitem") => Some(json!({"signature": "generator-unsound", "message": e, "case": case})),
        (Ok(_), Err(e)) if e.starts_with("notanitem") => Some(json!({"signature": "generator-unsound", "message": e, "case": case})),
        (Err(a), Err(b)) if a.starts_with("notanitem") || b.starts_with("notanitem") => {
            Some(json!({"signature": "generator-unsound", "message": format!("{a} / {b}"), "case": case}))
        }
        (l, r) => Some(json!({"signature": format!("{sig}-not-expanding"),
            "message": format!("{name}: left: {}; right: {}", l.err().unwrap_or_else(|| "ok".into()), r.err().unwrap_or_else(|| "ok".into())), "case": case})),
    }
}

fn c10_eval(words: &[u32], exclude: &[String], mut stats: Option<&mut Report>) -> Option<Value> {
    let item = c10_item(words);
    let serde_on = serde_requested();
    let w = |k: usize| words.get(200 + k).copied().unwrap_or(0);
    let plain = |spelling| Mode { spelling, split_lists: false, serde_first: false, junk: None, trailing_comma: false, empty_list_at: None };
    let (src_serde, _, _, positions) = c10_render(&item, &plain(Spelling::Serde));
    let (src_ts, moved, _, _) = c10_render(&item, &plain(Spelling::Ts));
    let (src_none, _, _, _) = c10_render(&item, &plain(Spelling::Stripped));
    let mut nontrivial = false;
    let mut result = None;
    let mut relations = 0u64;
    if serde_on {
        relations += 1;
        nontrivial |= moved > 0;
        result = result.or_else(|| c10_relation("all-serde == all-ts", &src_serde, &src_ts, "serde-ts-spelling-differ"));
        // split over several lists
        let (split_serde, _, _, _) = c10_render(&item, &Mode { spelling: Spelling::Serde, split_lists: true, serde_first: false, junk: None, trailing_comma: false, empty_list_at: None });
        let (split_ts, _, _, _) = c10_render(&item, &Mode { spelling: Spelling::Ts, split_lists: true, serde_first: false, junk: None, trailing_comma: false, empty_list_at: None });
        relations += 2;
        result = result.or_else(|| c10_relation("one serde list == one list per key", &src_serde, &split_serde, "split-lists-differ"));
        result = result.or_else(|| c10_relation("one ts list == one list per key", &src_ts, &split_ts, "split-lists-differ"));
        // both spellings present
        let (both, _, _, _) = c10_render(&item, &plain(Spelling::BothTsWins));
        let (both_same, _, _, _) = c10_render(&item, &plain(Spelling::BothSame));
        relations += 2;
        result = result.or_else(|| c10_relation("ts(k=v1) + serde(k=v2) == ts(k=v1)", &both, &src_ts, "ts-does-not-win"));
        result = result.or_else(|| c10_relation("ts(k=v) + serde(k=v) == ts(k=v)", &both_same, &src_ts, "ts-does-not-win"));
        // the same with the serde attribute written in front of the ts attribute
        let (both_rev, _, _, _) = c10_render(&item, &Mode { spelling: Spelling::BothTsWins, split_lists: false, serde_first: true, junk: None, trailing_comma: false, empty_list_at: None });
        relations += 1;
        result = result.or_else(|| c10_relation("serde(k=v2) written before ts(k=v1) == ts(k=v1)", &both_rev, &src_ts, "ts-does-not-win"));
        // a different spelling per key: ts wins key by key, the serde-only keys stay in force
        for round in 0..2 {
            let mask = w(90 + round) ^ (w(92 + round) << 16);
            let mode = Mode { spelling: Spelling::Mixed(mask), split_lists: w(94 + round) % 3 == 0, serde_first: w(96 + round) % 2 == 0, junk: None, trailing_comma: false, empty_list_at: None };
            let (mixed, _, _, _) = c10_render(&item, &mode);
            relations += 1;
            result = result.or_else(|| c10_relation("per-key mixture of serde / ts / both spellings == all-ts", &mixed, &src_ts, "mixed-spellings-differ"));
        }
        // a trailing comma in the serde lists
        if !exclude.iter().any(|e| e == "serde-list-with-trailing-comma-dropped") {
            let (trailing, _, _, _) = c10_render(&item, &Mode { spelling: Spelling::Serde, split_lists: false, serde_first: false, junk: None, trailing_comma: true, empty_list_at: None });
            relations += 1;
            result = result.or_else(|| c10_relation("#[serde(a, b,)] == #[serde(a, b)]", &trailing, &src_serde, "serde-list-with-trailing-comma-dropped"));
        }
    }
    // junk insertion at every attribute position of the item (one at a time, rotating junk)
    let known_forms_excluded = exclude.iter().any(|e| e == "unparseable-known-key-drops-list");
    for at in 0..positions {
        let j = (w(at) as usize) % (C10_JUNK.len() + if known_forms_excluded { 0 } else { C10_JUNK_KNOWN_KEY_FORMS.len() });
        let (junk, sig) = if j < C10_JUNK.len() {
            (C10_JUNK[j], "unknown-serde-key-not-inert")
        } else {
            (C10_JUNK_KNOWN_KEY_FORMS[j - C10_JUNK.len()], "unparseable-known-key-drops-list")
        };
        // `bound(..)` is a known key at container level: its function-call form is the known finding
        let at_container = at == 0;
        let sig = if junk.starts_with("bound(") && at_container { "unparseable-known-key-drops-list" } else { sig };
        if sig == "unparseable-known-key-drops-list" && known_forms_excluded {
            continue;
        }
        let mode = Mode { spelling: Spelling::Serde, split_lists: false, serde_first: false, junk: Some((at, w(40 + at) as usize % 4, junk)), trailing_comma: false, empty_list_at: None };
        let (with_junk, _, adjacent, _) = c10_render(&item, &mode);
        relations += 1;
        nontrivial |= adjacent;
        let reference = if serde_on { &src_serde } else { &src_none };
        result = result.or_else(|| c10_relation(&format!("junk `{junk}` at attribute position {at} is inert"), &with_junk, reference, sig));
    }
    // an empty `#[serde()]` (a no-op for serde) in front of the other attributes of one position
    {
        let at = (w(80) as usize) % positions.max(1);
        let mode = Mode { spelling: Spelling::Serde, split_lists: w(81) % 2 == 0, serde_first: false, junk: None, trailing_comma: false, empty_list_at: Some(at) };
        let (with_empty, _, _, _) = c10_render(&item, &mode);
        let (reference, _, _, _) = c10_render(&item, &Mode { empty_list_at: None, ..mode.clone() });
        relations += 1;
        let reference = if serde_on { reference } else { src_none.clone() };
        result = result.or_else(|| c10_relation(&format!("an empty #[serde()] in front of attribute position {at} is inert"), &with_empty, &reference, "empty-serde-list-not-inert"));
    }
    // `with` next to `skip`: a skipped field has no binding, so nothing has to be said about its type
    if serde_on && !exclude.iter().any(|e| e == "serde-with-on-skipped-field-rejected") {
        for at in c10_skipped_field_positions(&item) {
            let mode = Mode { spelling: Spelling::Serde, split_lists: false, serde_first: false, junk: Some((at, w(70 + at) as usize % 3, "with = \"some_module\"")), trailing_comma: false, empty_list_at: None };
            let (with_with, _, _, _) = c10_render(&item, &mode);
            relations += 1;
            result = result.or_else(|| c10_relation("#[serde(skip, with = \"m\")] == #[serde(skip)] on a field", &with_with, &src_serde, "serde-with-on-skipped-field-rejected"));
        }
    }
    // a skipped named field has no binding: the item expands as if the field were not there
    // (whatever else the field carries: `flatten`, `rename`, `as`, `inline`, `type`)
    if serde_on {
        let mut erased = item.clone();
        let mut removed = 0;
        // (`keep_one`: a struct variant stays a variant with fields - `V {}` is written
        // differently from `V { #[ts(skip)] a: A }`, both meaning the empty object)
        let mut strip = |fs: &mut Vec<C10Field>, keep_one: bool| {
            let skipped = |f: &C10Field| f.attrs.iter().any(|a| a.key == "skip");
            if keep_one && fs.iter().all(skipped) {
                return;
            }
            let before = fs.len();
            fs.retain(|f| !skipped(f));
            removed += before - fs.len();
        };
        strip(&mut erased.fields, false);
        for v in erased.variants.iter_mut().filter(|v| v.shape == 2) {
            strip(&mut v.fields, true);
        }
        if removed > 0 {
            let (src_erased, _, _, _) = c10_render(&erased, &plain(Spelling::Serde));
            relations += 1;
            nontrivial = true;
            result = result.or_else(|| c10_relation("a skipped named field == no field", &src_serde, &src_erased, "skipped-field-leaves-a-trace"));
            if let Some(stats) = stats.as_deref_mut() {
                stats.label("skipped_field_erased");
            }
        }
    }
    if !serde_on {
        relations += 1;
        nontrivial = true;
        result = result.or_else(|| c10_relation("serde-compat off: serde attributes have no effect", &src_serde, &src_none, "serde-effect-without-serde-compat"));
    }
    if let Some(stats) = stats {
        stats.evaluations += relations;
        stats.label(if item.is_enum { "enum" } else { "struct" });
        if nontrivial {
            stats.label("nontrivial_item");
        }
        if stats.samples.len() < 3 && relations > 6 && stats.evaluations % 41 == 0 {
            stats.samples.push(json!({"all_serde": src_serde, "all_ts": src_ts}));
        }
        stats.extra.insert("last_nontrivial".into(), json!(nontrivial));
    }
    result
}

fn c10_run(tier: &str, seed: u64, exclude: &[String]) -> Report {
    let cases: u64 = if tier == "thorough" { 300_000 } else { 16_000 };
    let nthreads = 16u64;
    let reports: Vec<Report> = std::thread::scope(|s| {
        let hs: Vec<_> = (0..nthreads)
            .map(|ti| {
                s.spawn(move || {
                    let strat = proptest::collection::vec(any::<u32>(), 320);
                    let mut runner = TestRunner::new_with_rng(
                        Config { cases: (cases / nthreads) as u32, failure_persistence: None, max_shrink_iters: 3000, ..Config::default() },
                        TestRng::from_seed(RngAlgorithm::ChaCha, &seed_bytes(seed.wrapping_mul(31).wrapping_add(ti) ^ 0xC10)),
                    );
                    let r = std::cell::RefCell::new(Report::default());
                    let distinct = std::cell::RefCell::new(HashSet::new());
                    let failed = std::cell::Cell::new(false);
                    let result = runner.run(&strat, |words| {
                        let f = if failed.get() {
                            c10_eval(&words, exclude, None)
                        } else {
                            let mut rr = r.borrow_mut();
                            let f = c10_eval(&words, exclude, Some(&mut rr));
                            let nt = rr.extra.get("last_nontrivial").and_then(|v| v.as_bool()).unwrap_or(false);
                            let (src, _, _, _) = c10_render(&c10_item(&words), &Mode { spelling: Spelling::Serde, split_lists: false, serde_first: false, junk: None, trailing_comma: false, empty_list_at: None });
                            if nt && distinct.borrow_mut().insert(fnv(&src)) {
                                rr.nontrivial += 1;
                            }
                            f
                        };
                        match f {
                            None => Ok(()),
                            Some(f) => {
                                failed.set(true);
                                Err(TestCaseError::fail(f.to_string()))
                            }
                        }
                    });
                    if let Err(e) = result {
                        let f = parse_failure(&e.to_string());
                        r.borrow_mut().push_failure(f);
                    }
                    let mut rep = r.into_inner();
                    rep.extra.remove("last_nontrivial");
                    rep
                })
            })
            .collect();
        hs.into_iter().map(|h| h.join().unwrap()).collect()
    });
    let mut total = Report::default();
    for r in reports {
        total.merge(r);
    }
    total
}

fn c10_replay(case: &Value) -> Option<Value> {
    c10_relation(case["relation"].as_str()?, case["left"].as_str()?, case["right"].as_str()?, "replayed-relation")
}
