// C09: rename_all yields the names serde puts on the wire, for every identifier.
// Oracle: serde_derive's own case.rs (module serde_case). Observation: the string literals of
// the real expansion of a one-field / one-variant item.

const C09_RULES: &[&str] = &[
    "lowercase", "UPPERCASE", "PascalCase", "camelCase", "snake_case", "SCREAMING_SNAKE_CASE", "kebab-case",
    "SCREAMING-KEBAB-CASE",
];
const C09_ALPHABET: &[char] = &['a', 'b', 'Z', 'Q', '0', '7', '_', 'ä', 'Ä', 'ß', '中'];
const C09_POSITIONS: &[&str] = &[
    "field", "variant_field_raf", "variant_field_ra", "variant", "variant_field_both",
    // secondary positions: the same names reached through other code paths of the derive
    "field_type", "field_as", "field_optional", "field_inline", "variant_internal_struct", "variant_internal_unit",
    "variant_adjacent_tuple", "variant_external_struct", "field_tuple_struct_variant_internal",
    // a variant's own rename_all is about its fields: its name follows the enum's rule (or none)
    "variant_own_rename_all", "variant_beside_own_rename_all",
];
/// the first C09_PRIMARY positions are enumerated over all identifiers; the others over the
/// identifiers up to length 3, the extra list and the random part
const C09_PRIMARY: usize = 5;
const C09_EXTRA_IDENTS: &[&str] = &[
    "r#type", "r#fn", "r#match", "r#Type", "r#async", "fooBar", "foo_bar", "FooBar", "Foo_Bar", "_foo", "foo_", "foo__bar",
    "__", "___", "_0", "a1b2", "HTTPServer", "getHTTP_response", "x", "X", "I18n", "ÄpfelÖl", "größe_max", "中文_名",
    "SCREAMING_CASE", "kebab", "Ab_cD_e", "aB", "Ab", "A_", "_A", "a_B_c", "A1_b2",
];

fn c09_is_ident(s: &str) -> bool {
    if s == "_" || s.is_empty() {
        return false;
    }
    syn::parse_str::<syn::Ident>(s).is_ok()
}

fn c09_item(position: &str, rule: &str, ident: &str, serde_spelling: bool) -> String {
    let attr = if serde_spelling { "serde" } else { "ts" };
    match position {
        "field" => format!("#[{attr}(rename_all = \"{rule}\")] struct Zq9Container {{ {ident}: i32 }}"),
        "variant_field_raf" => {
            format!("#[{attr}(rename_all_fields = \"{rule}\")] enum Zq9Container {{ Vv {{ {ident}: i32 }} }}")
        }
        "variant_field_ra" => format!("enum Zq9Container {{ #[{attr}(rename_all = \"{rule}\")] Vv {{ {ident}: i32 }} }}"),
        "variant" => format!("#[{attr}(rename_all = \"{rule}\")] enum Zq9Container {{ {ident}, Zz9Other(i32) }}"),
        // the variant's own rename_all wins over the enum's rename_all_fields (a different rule)
        "variant_field_both" => {
            let other = C09_RULES[(C09_RULES.iter().position(|r| *r == rule).unwrap_or(0) + 3) % C09_RULES.len()];
            format!("#[{attr}(rename_all_fields = \"{other}\")] enum Zq9Container {{ #[{attr}(rename_all = \"{rule}\")] Vv {{ {ident}: i32 }}, Ww {{ other_field: i32 }} }}")
        }
        "field_type" => format!("#[{attr}(rename_all = \"{rule}\")] struct Zq9Container {{ #[ts(type = \"Zq9Container\")] {ident}: i32, plain_other: i32 }}"),
        "field_as" => format!("#[{attr}(rename_all = \"{rule}\")] struct Zq9Container {{ #[ts(as = \"String\")] {ident}: i32 }}"),
        "field_optional" => format!("#[{attr}(rename_all = \"{rule}\")] struct Zq9Container {{ #[ts(optional)] {ident}: Option<i32>, }}"),
        "field_inline" => format!("#[{attr}(rename_all = \"{rule}\")] struct Zq9Container {{ #[ts(inline)] {ident}: Vec<i32>, }}"),
        "variant_internal_struct" => format!("#[{attr}(tag = \"Zq9tag\", rename_all = \"{rule}\")] enum Zq9Container {{ {ident} {{ plain_other: i32 }}, Zz9Other }}"),
        "variant_internal_unit" => format!("#[{attr}(tag = \"Zq9tag\", rename_all = \"{rule}\")] enum Zq9Container {{ {ident}, Zz9Other {{ plain_other: i32 }} }}"),
        "variant_adjacent_tuple" => format!("#[{attr}(tag = \"Zq9tag\", content = \"Zq9content\", rename_all = \"{rule}\")] enum Zq9Container {{ {ident}(i32, String), Zz9Other }}"),
        "variant_external_struct" => format!("#[{attr}(rename_all = \"{rule}\")] enum Zq9Container {{ {ident} {{ plain_other: i32 }}, Zz9Other(i32) }}"),
        "field_tuple_struct_variant_internal" => format!("#[{attr}(tag = \"Zq9tag\", rename_all_fields = \"{rule}\")] enum Zq9Container {{ Vv {{ {ident}: i32 }}, Ww }}"),
        "variant_own_rename_all" => format!("enum Zq9Container {{ #[{attr}(rename_all = \"{rule}\")] {ident} {{ plain_other: i32 }}, Zz9Other(i32) }}"),
        "variant_beside_own_rename_all" => {
            let other = C09_RULES[(C09_RULES.iter().position(|r| *r == rule).unwrap_or(0) + 3) % C09_RULES.len()];
            format!("#[{attr}(rename_all = \"{rule}\")] enum Zq9Container {{ #[{attr}(rename_all = \"{other}\")] {ident} {{ plain_other: i32 }}, Zz9Other(i32) }}")
        }
        _ => unreachable!(),
    }
}

fn c09_is_variant_position(position: &str) -> bool {
    position == "variant" || (position.starts_with("variant_") && !position.starts_with("variant_field"))
}

/// `None`: serde_derive itself panics on this identifier (the program does not derive serde).
fn c09_expected(position: &str, rule: &str, ident: &str) -> Option<String> {
    let name = ident.strip_prefix("r#").unwrap_or(ident).to_string();
    if position == "variant_own_rename_all" {
        return Some(name);
    }
    let rule = match serde_case::RenameRule::from_str(rule) {
        Ok(r) => r,
        Err(_) => return None,
    };
    let is_variant = c09_is_variant_position(position);
    catch_unwind(move || if is_variant { rule.apply_to_variant(&name) } else { rule.apply_to_field(&name) }).ok()
}

fn c09_nontrivial(position: &str, ident: &str) -> bool {
    let name = ident.strip_prefix("r#").unwrap_or(ident);
    if c09_is_variant_position(position) {
        // canonical input form of variants: ([A-Z][a-z0-9]*)+
        let mut chars = name.chars().peekable();
        let mut ok = chars.peek().is_some();
        let mut first = true;
        for c in chars {
            if first && !c.is_ascii_uppercase() {
                ok = false;
            }
            if !(c.is_ascii_uppercase() || c.is_ascii_lowercase() || c.is_ascii_digit()) {
                ok = false;
            }
            first = false;
        }
        !ok
    } else {
        // canonical input form of fields: [a-z][a-z0-9]*(_[a-z0-9]+)*
        let ok = !name.is_empty()
            && name.split('_').all(|p| !p.is_empty() && p.chars().all(|c| c.is_ascii_lowercase() || c.is_ascii_digit()))
            && name.chars().next().map_or(false, |c| c.is_ascii_lowercase());
        !ok
    }
}

/// evaluate one (position, rule, ident); `None` = holds or outside the domain
fn c09_eval(position: &str, rule: &str, ident: &str, serde_spelling: bool, stats: &mut Report) -> Option<Value> {
    let Some(expected) = c09_expected(position, rule, ident) else {
        stats.label("serde_derive_panics_itself(outside domain)");
        return None;
    };
    let src = c09_item(position, rule, ident, serde_spelling);
    let case = json!({"kind": "c09", "position": position, "rule": rule, "ident": ident, "serde_spelling": serde_spelling, "item": src});
    let class = if c09_is_variant_position(position) { "variant" } else { "field" };
    match expand(&src) {
        Expanded::NotAnItem(_) => {
            stats.discarded += 1;
            None
        }
        Expanded::Ok(ts) => {
            let mut lits = vec![];
            string_literals(ts, &mut lits);
            let quoted = format!("\"{expected}\"");
            if lits.iter().any(|l| *l == expected || *l == quoted) {
                None
            } else {
                let name = ident.strip_prefix("r#").unwrap_or(ident);
                let candidates: Vec<&String> = lits
                    .iter()
                    .filter(|l| !l.contains("{}") && !l.is_empty() && l.len() <= expected.len() + 8 && *l != "Zq9Container" && *l != "?" && *l != "Vv")
                    .collect();
                Some(json!({
                    "signature": format!("case-{class}-{rule}"),
                    "message": format!("{position} `{name}` under rename_all = \"{rule}\": serde uses {expected:?}; the expansion does not contain it (string literals present: {:?})", candidates),
                    "case": case, "expected": expected,
                }))
            }
        }
        Expanded::Err(e) => Some(json!({"signature": "derive-error", "message": format!("derive rejected a valid item: {e}"), "case": case})),
        Expanded::Panic(p) => Some(json!({"signature": format!("derive-panic-{class}-{rule}"), "message": format!("derive panicked: {p}"), "case": case})),
    }
}

fn c09_all_idents(maxlen: usize) -> Vec<String> {
    let mut out = vec![];
    let mut frontier: Vec<String> = vec![String::new()];
    for _ in 0..maxlen {
        let mut next = vec![];
        for p in &frontier {
            for c in C09_ALPHABET {
                let mut s = p.clone();
                s.push(*c);
                next.push(s);
            }
        }
        for s in &next {
            if c09_is_ident(s) {
                out.push(s.clone());
            }
        }
        frontier = next;
    }
    out
}

fn c09_excluded(exclude: &[String], position: &str, rule: &str) -> bool {
    let class = if c09_is_variant_position(position) { "variant" } else { "field" };
    exclude.iter().any(|e| *e == format!("case-{class}-{rule}") || *e == format!("derive-panic-{class}-{rule}"))
}

fn c09_run(tier: &str, seed: u64, exclude: &[String]) -> Report {
    let maxlen = if tier == "thorough" { 5 } else { 4 };
    let mut idents = c09_all_idents(maxlen);
    let exhaustive_len = idents.len();
    idents.extend(C09_EXTRA_IDENTS.iter().map(|s| s.to_string()));
    let serde_on = cfg!(feature = "serde-compat");
    let nthreads = 16;
    let reports: Vec<Report> = std::thread::scope(|s| {
        let hs: Vec<_> = (0..nthreads)
            .map(|ti| {
                let idents = &idents;
                s.spawn(move || {
                    let mut r = Report::default();
                    for (i, ident) in idents.iter().enumerate() {
                        if i % nthreads != ti {
                            continue;
                        }
                        for (pi, position) in C09_POSITIONS.iter().enumerate() {
                            if pi >= C09_PRIMARY && ident.chars().count() > 3 && i < exhaustive_len {
                                continue;
                            }
                            for rule in C09_RULES {
                                if c09_excluded(exclude, position, rule) {
                                    r.excluded_known += 1;
                                    continue;
                                }
                                let serde_spelling = serde_on && (i + rule.len()) % 2 == 0;
                                r.evaluations += 1;
                                if c09_nontrivial(position, ident) {
                                    r.nontrivial += 1;
                                }
                                if r.samples.is_empty() && i % 4099 == 17 && *rule == "camelCase" {
                                    r.samples.push(json!({"item": c09_item(position, rule, ident, serde_spelling), "serde_name": c09_expected(position, rule, ident)}));
                                }
                                if let Some(f) = c09_eval(position, rule, ident, serde_spelling, &mut r) {
                                    r.push_failure(f);
                                }
                            }
                        }
                    }
                    r
                })
            })
            .collect();
        hs.into_iter().map(|h| h.join().unwrap()).collect()
    });
    let mut total = Report::default();
    for r in reports {
        total.merge(r);
    }
    total.extra.insert("exhaustive_identifier_length".into(), json!(maxlen));
    total.extra.insert("exhaustive_identifiers".into(), json!(idents.len()));

    // random longer identifiers
    let cases = if tier == "thorough" { 300_000 } else { 30_000 };
    let strat = (
        "[a-zA-Z_ÄäßÖ中][a-zA-Z0-9_ÄäßÖ中]{0,15}".prop_filter("identifier", |s| c09_is_ident(s)),
        0..C09_POSITIONS.len(),
        0..C09_RULES.len(),
        any::<bool>(),
    );
    let mut runner = TestRunner::new_with_rng(
        Config { cases, failure_persistence: None, max_shrink_iters: 4000, ..Config::default() },
        TestRng::from_seed(RngAlgorithm::ChaCha, &seed_bytes(seed ^ 0xC09)),
    );
    let r = std::cell::RefCell::new(Report::default());
    let distinct = std::cell::RefCell::new(HashSet::new());
    let failed = std::cell::Cell::new(false);
    let result = runner.run(&strat, |(ident, p, ru, sp)| {
        let (position, rule) = (C09_POSITIONS[p], C09_RULES[ru]);
        if c09_excluded(exclude, position, rule) {
            if !failed.get() {
                r.borrow_mut().excluded_known += 1;
            }
            return Ok(());
        }
        let mut rr = r.borrow_mut();
        let mut scratch = Report::default();
        let stats: &mut Report = if failed.get() { &mut scratch } else { &mut rr };
        if !failed.get() {
            stats.evaluations += 1;
            if c09_nontrivial(position, &ident) && distinct.borrow_mut().insert(fnv(&format!("{position}/{rule}/{ident}"))) {
                stats.nontrivial += 1;
            }
            if stats.samples.len() < 4 && stats.evaluations % 997 == 3 {
                stats.samples.push(json!({"item": c09_item(position, rule, &ident, sp && serde_on), "serde_name": c09_expected(position, rule, &ident)}));
            }
        }
        match c09_eval(position, rule, &ident, sp && serde_on, stats) {
            None => Ok(()),
            Some(f) => {
                failed.set(true);
                Err(TestCaseError::fail(f.to_string()))
            }
        }
    });
    if let Err(e) = result {
        let f = parse_failure(&e.to_string());
        r.borrow_mut().push_failure(f);
    }
    total.merge(r.into_inner());
    total
}

fn c09_replay(case: &Value) -> Option<Value> {
    let mut scratch = Report::default();
    c09_eval(
        case["position"].as_str()?,
        case["rule"].as_str()?,
        case["ident"].as_str()?,
        case["serde_spelling"].as_bool().unwrap_or(false) && cfg!(feature = "serde-compat"),
        &mut scratch,
    )
}
