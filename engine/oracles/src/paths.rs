//! Purely lexical reference path arithmetic (POSIX separators only).
//!
//! `normalize(cwd, path)`: absolute, dot-free component list, `None` if the path climbs above the
//! root. `resolve_spec(importer, spec)`: TypeScript's rule for relative module specifiers,
//! `resolve(dirname(importer), spec)`.

pub type Comps = Vec<String>;

pub fn split(path: &str) -> (bool, Vec<&str>) {
    let abs = path.starts_with('/');
    (abs, path.split('/').filter(|c| !c.is_empty()).collect())
}

/// `cwd` must be absolute.
pub fn normalize(cwd: &str, path: &str) -> Option<Comps> {
    let (abs, comps) = split(path);
    let mut out: Comps = if abs {
        vec![]
    } else {
        let (cabs, c) = split(cwd);
        assert!(cabs, "cwd must be absolute");
        let mut o = vec![];
        for x in c {
            match x {
                "." => (),
                ".." => {
                    o.pop()?;
                }
                x => o.push(x.to_string()),
            }
        }
        o
    };
    for c in comps {
        match c {
            "." => (),
            ".." => {
                out.pop()?;
            }
            c => out.push(c.to_string()),
        }
    }
    Some(out)
}

pub fn join(comps: &[String]) -> String {
    format!("/{}", comps.join("/"))
}

/// Resolve a relative module specifier against the importing *file* (absolute components).
pub fn resolve_spec(importer: &[String], spec: &str) -> Option<Comps> {
    if !(spec.starts_with("./") || spec.starts_with("../")) {
        return None;
    }
    let mut out: Comps = importer[..importer.len().checked_sub(1)?].to_vec();
    for c in spec.split('/') {
        match c {
            "" | "." => (),
            ".." => {
                out.pop()?;
            }
            c => out.push(c.to_string()),
        }
    }
    Some(out)
}

/// The file a TypeScript compiler would look at for `import .. from spec` written in `importer`:
/// `spec + ".ts"`; with ES-module specifiers the `.js` suffix stands for the `.ts` source.
pub fn resolve_import(importer: &[String], spec: &str, esm: bool) -> Option<Comps> {
    let mut target = resolve_spec(importer, spec)?;
    let last = target.pop()?;
    let file = if esm {
        format!("{}.ts", last.strip_suffix(".js")?)
    } else {
        format!("{last}.ts")
    };
    target.push(file);
    Some(target)
}

#[derive(Debug, Clone, PartialEq)]
pub enum SpecVerdict {
    Ok,
    Bad(String),
}

/// All conditions of C08 on one specifier.
pub fn check_specifier(cwd: &str, from: &str, to: &str, spec: &str, esm: bool) -> SpecVerdict {
    let bad = |s: String| SpecVerdict::Bad(s);
    if !(spec.starts_with("./") || spec.starts_with("../")) {
        return bad(format!("specifier {spec:?} is not relative (must start with ./ or ../)"));
    }
    if spec.contains('\\') {
        return bad(format!("specifier {spec:?} contains a backslash"));
    }
    if esm && !spec.ends_with(".js") {
        return bad(format!("specifier {spec:?} must end in .js with import-esm"));
    }
    // "carries no .ts extension" is enforced by resolution below: TypeScript appends `.ts` to the
    // specifier, so a specifier that kept the extension of `A.ts` denotes `A.ts.ts`. (A purely
    // syntactic test would wrongly reject `./x.ts` for the file `x.ts.ts`.)
    let (Some(f), Some(t)) = (normalize(cwd, from), normalize(cwd, to)) else {
        return bad("reference: path climbs above root but a specifier was produced".into());
    };
    match resolve_import(&f, spec, esm) {
        Some(r) if r == t => SpecVerdict::Ok,
        Some(r) => bad(format!(
            "specifier {spec:?} written in {} resolves to {} but the dependency is {}",
            join(&f),
            join(&r),
            join(&t)
        )),
        None => bad(format!("specifier {spec:?} cannot be resolved from {}", join(&f))),
    }
}

#[cfg(test)]
mod tests {
    use super::*;
    #[test]
    fn basics() {
        assert_eq!(normalize("/a/b", "c/../d/./e.ts"), Some(vec!["a".into(), "b".into(), "d".into(), "e.ts".into()]));
        assert_eq!(normalize("/a", "../../x"), None);
        assert_eq!(normalize("/a", "../x"), Some(vec!["x".into()]));
        assert_eq!(check_specifier("/w", "bindings/a/A.ts", "bindings/b/B.ts", "../b/B", false), SpecVerdict::Ok);
        assert_eq!(check_specifier("/w", "bindings/a/A.ts", "bindings/a/B.ts", "./B", false), SpecVerdict::Ok);
        assert_eq!(check_specifier("/w", "bindings/a/A.ts", "bindings/a/B.ts", "./B.js", true), SpecVerdict::Ok);
        assert!(matches!(check_specifier("/w", "bindings/a/A.ts", "bindings/a/B.ts", "B", false), SpecVerdict::Bad(_)));
        assert!(matches!(check_specifier("/w", "bindings/a/A.ts", "bindings/b/B.ts", "./B", false), SpecVerdict::Bad(_)));
        assert!(matches!(check_specifier("/w", "a/A.ts", "a/x.ts.ts", "./x", false), SpecVerdict::Bad(_)));
        assert_eq!(check_specifier("/w", "a/A.ts", "a/x.ts.ts", "./x.ts", false), SpecVerdict::Ok);
        assert!(matches!(check_specifier("/w", "a/A.ts", "a/x.ts", "./x.ts", false), SpecVerdict::Bad(_)));
    }
}
