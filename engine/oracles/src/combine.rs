//! Reference "file combiner": what a file shared by several exported types must contain.
//!
//! Input: the standalone texts (`export_to_string`) of the types mapped to one file.
//! Output: notice; union of the import lines (one line per module, names merged, modules and
//! names sorted); blank line; the declarations (doc comment attached) in name order, separated
//! by one blank line; final newline.
//!
//! The standalone texts are taken apart with swc spans (tsmodel), never by splitting on blank
//! lines or searching for `export type`.

use std::collections::{BTreeMap, BTreeSet};

#[derive(Clone, Debug)]
pub struct Standalone {
    pub name: String,
    /// sort key: the declaration head as written, i.e. identifier plus generic parameter list up
    /// to the first white space (`Foo`, `Foo<T>`, `Foo<T,`)
    pub head: String,
    pub imports: BTreeMap<String, BTreeSet<String>>,
    /// doc comment (if any) + `export type .. ;`
    pub decl_text: String,
    /// the standalone text as it was given (what a file holding only this type contains)
    pub text: String,
}

pub fn parse_standalone(text: &str, note: &str) -> Result<Standalone, String> {
    if !text.starts_with(note) {
        return Err("text does not start with the notice".into());
    }
    let m = tsmodel::parse_module(text)?;
    if m.decls.len() != 1 {
        return Err(format!("{} declarations in a standalone text", m.decls.len()));
    }
    let d = &m.decls[0];
    let mut imports: BTreeMap<String, BTreeSet<String>> = BTreeMap::new();
    let mut header_end = note.len();
    for i in &m.imports {
        if i.lo as usize >= d.lo as usize {
            return Err("import after declaration".into());
        }
        imports.entry(i.spec.clone()).or_default().extend(i.names.iter().cloned());
        header_end = header_end.max(i.hi as usize);
    }
    let rest = &text[header_end..];
    let start = header_end + (rest.len() - rest.trim_start().len());
    let decl_text = text[start..].trim_end().to_string();
    if start + decl_text.len() != d.hi as usize {
        return Err("trailing content after the declaration".into());
    }
    let at_decl = &text[d.lo as usize..];
    let after = at_decl
        .strip_prefix("export type ")
        .ok_or_else(|| "declaration does not start with `export type `".to_string())?;
    let head: String = after.chars().take_while(|c| !c.is_whitespace()).collect();
    Ok(Standalone { name: d.name.clone(), head, imports, decl_text, text: text.to_string() })
}

pub fn combine(note: &str, parts: &[Standalone]) -> String {
    let mut imports: BTreeMap<&str, BTreeSet<&str>> = BTreeMap::new();
    for p in parts {
        for (spec, names) in &p.imports {
            imports.entry(spec).or_default().extend(names.iter().map(|s| s.as_str()));
        }
    }
    let mut out = String::from(note);
    for (spec, names) in &imports {
        let names: Vec<&str> = names.iter().copied().collect();
        out.push_str(&format!("import type {{ {} }} from \"{}\";\n", names.join(", "), spec));
    }
    let mut decls: Vec<&Standalone> = parts.iter().collect();
    decls.sort_by(|a, b| a.head.as_bytes().cmp(b.head.as_bytes()));
    for d in decls {
        out.push('\n');
        out.push_str(&d.decl_text);
        out.push('\n');
    }
    out
}

/// Convenience: combine standalone texts; `Err` if one of them cannot be taken apart.
pub fn combine_texts(note: &str, texts: &[&str]) -> Result<String, String> {
    let mut parts = vec![];
    for t in texts {
        parts.push(parse_standalone(t, note)?);
    }
    // one declaration per name
    let mut seen = BTreeSet::new();
    parts.retain(|p| seen.insert(p.name.clone()));
    Ok(combine(note, &parts))
}

#[cfg(test)]
mod tests {
    use super::*;
    const NOTE: &str = "// note\n";
    #[test]
    fn combine_two() {
        let a = "// note\nimport type { X } from \"./x\";\n\n/**\n * doc\n */\nexport type B = { x: X, };\n";
        let b = "// note\nimport type { Q } from \"../q\";\nimport type { Y } from \"./x\";\n\nexport type A<T> = Y | Q | T;\n";
        let c = combine_texts(NOTE, &[a, b]).unwrap();
        assert_eq!(c, "// note\nimport type { Q } from \"../q\";\nimport type { X, Y } from \"./x\";\n\nexport type A<T> = Y | Q | T;\n\n/**\n * doc\n */\nexport type B = { x: X, };\n");
        assert_eq!(combine_texts(NOTE, &[a]).unwrap(), a);
        assert_eq!(combine_texts(NOTE, &[b]).unwrap(), b);
    }
}
