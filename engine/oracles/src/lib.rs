pub fn placeholder() {}
