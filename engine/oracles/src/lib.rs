//! Reference models that are independent of ts-rs.
pub mod combine;
pub mod paths;
