//! C07: declarations of generic types are parametric and well-scoped.
use std::collections::{BTreeMap, BTreeSet, HashMap, HashSet};

use serde_json::{json, Value};
use typegen::{render, Module, Profile, TyExpr};

use crate::{
    common::*,
    corpus::*,
    e2::{case_of, view, ModResult},
    subjects,
};

pub fn profile_generics() -> Profile {
    let mut p = Profile::base("generics");
    p.serde = false;
    p.rich_generics = true;
    p.generics = 85;
    p.max_types = 5;
    p.user_refs = 55;
    p.inline = 15;
    p.flatten = 8;
    p.docs = 0;
    p.optional = 15;
    p.skip = 3;
    p.recursion = 0;
    p.unusual_idents = 10;
    p
}

/// the TypeScript name the documentation promises for a type expression (None: not modelled)
fn expected_ts(t: &TyExpr, m: &Module) -> Option<String> {
    Some(match t {
        TyExpr::Prim(p) => match typegen::prim_ts(p) {
            "unknown" => return None,
            x => x.to_string(),
        },
        TyExpr::Option(x) => format!("{} | null", expected_ts(x, m)?),
        TyExpr::Vec(x) => format!("Array<{}>", expected_ts(x, m)?),
        TyExpr::Tuple(xs) => format!("[{}]", xs.iter().map(|x| expected_ts(x, m)).collect::<Option<Vec<_>>>()?.join(", ")),
        TyExpr::User(i, args) => {
            let td = &m.types[*i];
            let shown: Vec<String> = td.params.iter().zip(args).filter(|(p, _)| p.concrete.is_none()).map(|(_, a)| expected_ts(a, m)).collect::<Option<Vec<_>>>()?;
            if shown.is_empty() {
                td.ts_name()
            } else {
                format!("{}<{}>", td.ts_name(), shown.join(", "))
            }
        }
        TyExpr::Param(p) => p.clone(),
        _ => return None,
    })
}

pub fn c07_module(p: &Placed, server: &mut Server) -> ModResult {
    let mut r = ModResult::default();
    r.labels = p.module.labels();
    let v = match view(p, server) {
        Ok(v) => v,
        Err(e) => {
            r.failures.push(json!({"signature": format!("server-{e}"), "message": format!("the compiled module {e}"), "case": case_of(p, json!({}))}));
            return r;
        }
    };
    if v.problems.iter().any(|pr| pr["unsupported"] == true) {
        r.extra.push(("discarded_unsupported".into(), 1));
        return r;
    }
    for pr in &v.problems {
        r.failures.push(json!({"signature": "declaration-unusable", "message": pr["what"], "case": case_of(p, json!({"detail": pr}))}));
    }
    if !v.problems.is_empty() {
        return r;
    }
    let m = &p.module;
    let module_names: BTreeSet<String> = m.types.iter().map(|t| t.ts_name()).collect();
    // group instantiations by definition
    let mut by_def: BTreeMap<usize, Vec<usize>> = BTreeMap::new();
    for (t, inst) in m.insts.iter().enumerate() {
        if let TyExpr::User(i, _) = inst {
            by_def.entry(*i).or_default().push(t);
        }
    }
    let mut nontrivial = false;
    for (def, ts) in &by_def {
        let td = &m.types[*def];
        if td.params.is_empty() {
            continue;
        }
        let label = |t: usize| render::render_ty(&m.insts[t], m);
        // (1) the declaration is the same text for every choice of arguments
        let decls: Vec<&str> = ts.iter().filter_map(|t| okstr(&v.infos[*t], "decl")).collect();
        r.evaluations += 1;
        if let Some(other) = decls.iter().position(|d| *d != decls[0]) {
            r.failures.push(json!({"signature": "decl-depends-on-arguments", "message": format!("decl() differs between instantiations:\n`{}`: {}\n`{}`: {}", label(ts[0]), decls[0], label(ts[other]), decls[other]), "case": case_of(p, json!({}))}));
            continue;
        }
        let Some(decl) = tsmodel::parse_module(decls[0]).ok().and_then(|mm| mm.decls.into_iter().next()) else { continue };
        if ts.len() >= 2 {
            nontrivial = true;
        }
        // (2) generic over exactly the non-concretised type parameters, in order, with defaults
        let expected_params: Vec<&typegen::Param> = td.ts_params();
        let got: Vec<&String> = decl.params.iter().map(|(n, _)| n).collect();
        let want: Vec<&String> = expected_params.iter().map(|p| &p.name).collect();
        r.evaluations += 1;
        if got != want {
            r.failures.push(json!({"signature": "parameter-list", "message": format!("`{}` is declared generic over {:?}, its non-concretised type parameters are {:?}: {}", td.ts_name(), got, want, decls[0]), "case": case_of(p, json!({}))}));
            continue;
        }
        for (k, ep) in expected_params.iter().enumerate() {
            let got_default = &decl.params[k].1;
            match (&ep.default, got_default) {
                (None, None) => (),
                (Some(d), Some(g)) => {
                    if let Some(exp) = expected_ts(d, m).and_then(|s| tsmodel::parse_type(&s).ok()) {
                        if tsmodel::erase_meta(&exp) != tsmodel::erase_meta(g) {
                            r.failures.push(json!({"signature": "parameter-default", "message": format!("default of parameter {} of `{}`: declared {}, expected {}", ep.name, td.ts_name(), tsmodel::show(g), tsmodel::show(&exp)), "case": case_of(p, json!({}))}));
                        }
                    }
                }
                (a, b) => r.failures.push(json!({"signature": "parameter-default", "message": format!("default of parameter {} of `{}`: Rust has {:?}, TypeScript has {:?}: {}", ep.name, td.ts_name(), a.is_some(), b.is_some(), decls[0]), "case": case_of(p, json!({}))})),
            }
        }
        // (3) no type-parameter name that is not bound: every free name is a type of the module
        r.evaluations += 1;
        let stray: Vec<String> = tsmodel::free_type_names(&decl).into_iter().filter(|n| !module_names.contains(n)).collect();
        if !stray.is_empty() {
            r.failures.push(json!({"signature": "unbound-name-in-declaration", "message": format!("the declaration of `{}` mentions {:?}, which it neither binds nor is a type of the module: {}", td.ts_name(), stray, decls[0]), "case": case_of(p, json!({}))}));
            continue;
        }
        // (6) the dependencies of an instantiation are the types its declarations mention: nothing
        // it does not use (a default of a parameter that was made concrete), nothing missing
        for t in ts {
            let info = &v.infos[*t];
            if let (Some(dc), Some(deps)) = (okstr(info, "decl_concrete").and_then(|s| tsmodel::parse_module(s).ok()).and_then(|mm| mm.decls.into_iter().next()), info["dependencies"].as_array()) {
                let mut free = tsmodel::free_type_names(&dc);
                free.extend(tsmodel::free_type_names(&decl));
                free.remove(&decl.name);
                let mut dn: BTreeSet<String> = deps.iter().filter_map(|x| x["ts_name"].as_str().map(|s| s.to_string())).collect();
                dn.remove(&decl.name);
                r.evaluations += 1;
                if free != dn {
                    // listed finding: a default that mentions another parameter (`U = T`, `U = Vec<T>`)
                    // is evaluated at the arguments, which makes the argument a dependency
                    fn mentions_param(t: &TyExpr) -> bool {
                        match t {
                            TyExpr::Param(_) => true,
                            TyExpr::User(_, a) | TyExpr::Lib(_, a) | TyExpr::Tuple(a) => a.iter().any(mentions_param),
                            TyExpr::Option(x) | TyExpr::Vec(x) | TyExpr::Array(x, _) | TyExpr::Wrap(_, x) => mentions_param(x),
                            TyExpr::Map(k, v, _) => mentions_param(k) || mentions_param(v),
                            _ => false,
                        }
                    }
                    let default_over_param = td.params.iter().any(|p| p.default.as_ref().map_or(false, mentions_param)) && dn.is_superset(&free);
                    r.failures.push(json!({"signature": if default_over_param { "argument-becomes-dependency-through-default-over-parameter" } else { "dependencies-differ-from-declaration" }, "message": format!("`{}`: the declarations mention {:?}, dependencies() reports {:?}\ndecl: {}\ndecl_concrete: {}", label(*t), free, dn, decls[0], okstr(info, "decl_concrete").unwrap_or("")), "case": case_of(p, json!({}))}));
                    break;
                }
            }
        }
        for t in ts {
            let TyExpr::User(_, args) = &m.insts[*t] else { continue };
            let Some(name) = okstr(&v.infos[*t], "name") else { continue };
            // (4) a reference is the identifier applied to the names of the arguments
            if let Some(exp) = expected_ts(&m.insts[*t], m) {
                r.evaluations += 1;
                let (a, b) = (tsmodel::parse_type(name), tsmodel::parse_type(&exp));
                if let (Ok(a), Ok(b)) = (a, b) {
                    if tsmodel::erase_meta(&a) != tsmodel::erase_meta(&b) {
                        r.failures.push(json!({"signature": "name-of-instantiation", "message": format!("`{}`::name() = {name:?}, expected {exp:?}", label(*t)), "case": case_of(p, json!({}))}));
                        continue;
                    }
                }
            }
            // (5) the generic declaration expanded at the arguments denotes the concrete declaration
            let Some(conc) = okstr(&v.infos[*t], "decl_concrete").and_then(|s| tsmodel::parse_module(s).ok()).and_then(|mm| mm.decls.into_iter().next()) else { continue };
            let Ok(tsmodel::Ty::Ref(_, targs)) = tsmodel::parse_type(name) else {
                // no arguments shown (all concretised): compare bodies directly
                continue;
            };
            if targs.len() != decl.params.len() {
                continue;
            }
            let map: HashMap<String, tsmodel::Ty> = decl.params.iter().map(|(n, _)| n.clone()).zip(targs.into_iter()).collect();
            let expanded = tsmodel::subst(&decl.body, &map);
            r.evaluations += 1;
            let _ = args;
            if let Some(d) = tsmodel::distinguish(&expanded, &v.env, &conc.body, &v.env, &[]) {
                let known = td.attrs.optional_fields.is_some();
                r.failures.push(json!({"signature": if known { "optional-fields-on-bare-parameter-instantiated-with-option" } else { "expansion-differs-from-concrete-declaration" },
                    "message": format!("`{}`: {} is a member of {} only.\ngeneric:  {}\nconcrete: {}", label(*t), d.value, if d.in_left { "the generic declaration expanded at the arguments" } else { "decl_concrete()" }, decls[0], okstr(&v.infos[*t], "decl_concrete").unwrap_or("")), "case": case_of(p, json!({}))}));
            }
        }
    }
    if r.sample.is_none() {
        if let Some((def, ts)) = by_def.iter().find(|(d, ts)| !m.types[**d].params.is_empty() && ts.len() >= 2) {
            let _ = def;
            r.sample = Some(json!({"instantiations": ts.iter().map(|t| json!({"rust": render::render_ty(&m.insts[*t], m), "name": okstr(&v.infos[*t], "name"), "decl": okstr(&v.infos[*t], "decl"), "decl_concrete": okstr(&v.infos[*t], "decl_concrete")})).collect::<Vec<_>>()}));
        }
    }
    if nontrivial {
        r.nontrivial_hashes.push(fnv(&render::render_module(m)));
    }
    r
}

pub fn c07(ctx: &Ctx) -> ! {
    lock_subjects(ctx);
    let known = load_known(ctx, "C07");
    let mut out = Outcome::default();
    out.rule = "TS-only generated modules with generic types: 1-3 type parameters mixed with a lifetime and a const parameter (const before or after the type parameters), defaults (primitive, user type, or an expression over an EARLIER parameter), `concrete(..)` on one parameter, parameters used bare, in Option/Vec/maps/tuples/arrays, as arguments of other generics, inlined and flattened; every generic definition is instantiated 2-4 times (primitives, containers, user types; const arguments fixed). Oracle: (1) decl() is the same string for all instantiations; (2) swc: the alias is generic over exactly the non-concretised type parameters, in order, with the expected defaults; (3) every free name of the declaration is a type of the module; (4) name() = identifier<names of the arguments>; (5) no JSON witness distinguishes the declaration expanded at the arguments from decl_concrete(). Non-trivial: a generic definition with >=2 instantiations compared; distinct by module text".into();
    out.assumptions = vec!["const arguments are held fixed (2), as the property says".into(), "serde is not derived in this corpus (lifetimes/const generics), values are checked by C01/C14 on the serde corpus".into()];
    crate::e2::regression(ctx, "C07", &known, &mut out);
    let rounds = if ctx.thorough() { 6 } else { 1 };
    let mut distinct = HashSet::new();
    for round in 0..rounds {
        let modules = gen_modules(ctx, &profile_generics(), 16 * 12, 0xC07 + round as u64 * 7919);
        let corpus = build(ctx, modules, &subjects::SlotCfg::default());
        out.bump("modules", corpus.modules.len() as u64);
        out.bump("types", corpus.modules.iter().map(|m| m.module.insts.len() as u64).sum());
        out.bump("discarded_by_rustc", corpus.discarded_by_rustc as u64);
        if round == 0 && !corpus.discarded_samples.is_empty() {
            out.extra.insert("discarded_by_rustc_sample".into(), json!(corpus.discarded_samples[0].chars().take(1500).collect::<String>()));
        }
        let results = for_each_module(ctx, &corpus, |p, s, _| c07_module(p, s));
        for (_, r) in results {
            out.evaluations += r.evaluations;
            for l in r.labels {
                *out.labels.entry(l).or_default() += 1;
            }
            for h in r.nontrivial_hashes {
                if distinct.insert(h) {
                    out.distinct_nontrivial += 1;
                }
            }
            for (k, n) in r.extra {
                out.bump(&k, n);
            }
            if let Some(s) = r.sample {
                if out.samples.len() < 4 {
                    out.samples.push(s);
                }
            }
            out.take_failures(&r.failures, &known);
        }
        if !out.violations.is_empty() {
            break;
        }
    }
    crate::e2::shrink_violations(ctx, "C07", &mut out);
    finish(ctx, "C07", out)
}

/// C16, compiled half: every generated item the derive accepts must compile. The corpus is the
/// TS-only one of C07 (rich generics) with all attribute weights raised; a module rustc rejects
/// with an error *code* inside the expansion of derive(TS) is a violation (errors the derive
/// reports itself carry no code and are legitimate rejections).
pub fn c16_compiled(ctx: &Ctx, out: &mut Outcome, known: &[Known]) {
    let mut profile = profile_generics();
    profile.optional = 35;
    profile.flatten = 12;
    profile.inline = 20;
    profile.rename_all = 45;
    profile.unusual_idents = 45;
    profile.recursion = 8;
    profile.docs = 15;
    let rounds = if ctx.thorough() { 4 } else { 1 };
    for round in 0..rounds {
        let mut modules = gen_modules(ctx, &profile, 16 * 10, 0xC16 + round as u64 * 7919);
        // expected-failure batch: `#[ts(optional)]` on a field that is not an Option must be
        // rejected by rustc (the derive cannot know the type; the IsOption bound does it)
        let mut must_fail: BTreeSet<String> = BTreeSet::new();
        let extra: Vec<Module> = modules
            .iter()
            .take(48)
            .filter_map(|m| {
                let mut c = m.clone();
                c.name = format!("{}x", m.name);
                for td in c.types.iter_mut() {
                    if let typegen::Body::Named(fs) = &mut td.body {
                        if let Some(f) = fs.iter_mut().find(|f| matches!(f.ty, TyExpr::Prim(p) if p != "()") && !f.skip && !f.flatten && f.type_override.is_none() && f.optional.is_none()) {
                            f.optional = Some(false);
                            f.inline = false;
                            f.as_same = false;
                            // every other one inside a struct that has `optional_fields` itself
                            // (which is a no-op on non-Option fields, the field attribute is not)
                            if m.name.as_bytes().last().map_or(false, |b| b % 2 == 0) && td.attrs.type_override.is_none() && td.attrs.as_type.is_none() {
                                td.attrs.optional_fields = Some(false);
                            }
                            return Some(c);
                        }
                    }
                }
                None
            })
            .collect();
        for e in &extra {
            must_fail.insert(e.name.clone());
        }
        modules.extend(extra);
        let n = modules.len();
        let corpus = build(ctx, modules, &subjects::SlotCfg::default());
        out.evaluations += n as u64;
        out.bump("compiled_modules", corpus.modules.len() as u64);
        out.bump("compiled_types", corpus.modules.iter().map(|m| m.module.types.len() as u64).sum());
        out.bump("modules_rustc_rejected_without_error_code", corpus.discards.iter().filter(|d| d.code.is_none()).count() as u64);
        for pm in &corpus.modules {
            if must_fail.contains(&pm.module.name) {
                out.take_failures(&[json!({"signature": "optional-on-non-option-accepted", "message": "`#[ts(optional)]` on a field whose type is not an Option compiled; it must be rejected (IsOption)", "case": case_of(pm, json!({"compile_only": true, "must_fail": true}))})], known);
            }
        }
        out.bump("expected_compile_failures_confirmed(optional on non-Option)", corpus.discards.iter().filter(|d| must_fail.contains(&d.module.name)).count() as u64);
        // errors without a code inside the derive's expansion: either the derive's own diagnostic
        // (legitimate rejection) or a rustc error on generated code. The in-process harness
        // decides: if it expands every item of the module without error, the derive accepted it.
        let uncoded: Vec<&Discard> = corpus.discards.iter().filter(|d| d.code.is_none() && !must_fail.contains(&d.module.name)).collect();
        let mut accepted_by_derive: BTreeSet<String> = BTreeSet::new();
        if !uncoded.is_empty() {
            let exe = subjects::build_harness(ctx, true, true);
            for d in &uncoded {
                let items: Vec<String> = d.module.types.iter().map(|td| render::render_type(td, &d.module)).collect();
                let tmp = ctx.work.join(format!("c16-items-{}.json", std::process::id()));
                std::fs::write(&tmp, serde_json::to_string(&items).unwrap()).ok();
                let rep = crate::e1::run_harness(ctx, &exe, "expand", &[], Some(&tmp));
                std::fs::remove_file(&tmp).ok();
                let all_ok = rep["extra"]["verdicts"].as_array().map_or(false, |a| a.len() == items.len() && a.iter().all(|v| v == "ok"));
                if all_ok {
                    accepted_by_derive.insert(d.module.name.clone());
                }
            }
        }
        // modules the derive itself rejects: what it said (the generated programs are meant to be
        // valid, so every entry here is either a generator rule that is missing or a rejection of
        // a valid program)
        {
            let mut said: BTreeMap<String, u64> = BTreeMap::new();
            for d in &uncoded {
                if !accepted_by_derive.contains(&d.module.name) {
                    let line = d.rendered.lines().find(|l| l.starts_with("error")).unwrap_or("").to_string();
                    *said.entry(line).or_default() += 1;
                }
            }
            if !said.is_empty() {
                out.extra.insert("derive_rejections_of_generated_modules".into(), json!(said));
            }
            // the generated programs are in the supported fragment (they are what C01..C15 run
            // on): a rejection is a diagnosis of a problem that is not there
            for d in &uncoded {
                if !accepted_by_derive.contains(&d.module.name) {
                    let line = d.rendered.lines().find(|l| l.starts_with("error")).unwrap_or("").to_string();
                    let placed = Placed { module: d.module.clone(), slot: 0, index: 0 };
                    out.take_failures(&[json!({"signature": "valid-item-rejected", "message": format!("the derive rejects a generated program of the supported fragment: {line}\n{}", d.rendered.chars().take(1200).collect::<String>()), "case": case_of(&placed, json!({"compile_only": true, "must_compile": true}))})], known);
                }
            }
        }
        // errors that rustc does not attribute to the derive (it reports them at the user's own
        // tokens, which the derive re-emits with their spans): the control build decides. The same
        // items without `derive(TS)` and `#[ts(..)]` compile => the expansion is at fault.
        let outside: Vec<&Discard> = corpus
            .discards
            .iter()
            .filter(|d| !must_fail.contains(&d.module.name) && d.code.is_some() && !d.in_derive_ts && !accepted_by_derive.contains(&d.module.name))
            .collect();
        let mut control_compiles: BTreeSet<String> = BTreeSet::new();
        if !outside.is_empty() {
            let controls: Vec<Module> = outside
                .iter()
                .map(|d| {
                    let mut c = d.module.clone();
                    c.without_ts_derive = true;
                    c
                })
                .collect();
            let control = build(ctx, controls, &subjects::SlotCfg::default());
            out.bump("control_builds_without_derive", outside.len() as u64);
            for pm in &control.modules {
                control_compiles.insert(pm.module.name.clone());
            }
        }
        for d in &corpus.discards {
            if must_fail.contains(&d.module.name) {
                continue;
            }
            if (d.code.is_some() && d.in_derive_ts) || accepted_by_derive.contains(&d.module.name) || control_compiles.contains(&d.module.name) {
                let known_sig = d.module.types.iter().any(|td| {
                    td.attrs.optional_fields == Some(false)
                        && td.params.iter().any(|p| td.all_fields().iter().any(|f| matches!(&f.ty, TyExpr::Param(n) if *n == p.name)))
                });
                let sig = if known_sig { "optional-fields-on-generic-bare-parameter-does-not-compile" } else { "accepted-item-does-not-compile" };
                let placed = Placed { module: d.module.clone(), slot: 0, index: 0 };
                out.take_failures(&[json!({"signature": sig, "message": format!("the derive accepted the item but its expansion does not compile:\n{}", d.rendered.chars().take(1500).collect::<String>()), "case": case_of(&placed, json!({"compile_only": true}))})], known);
            } else if d.code.is_some() {
                out.bump("generator_unsound_modules(compile error also without the derive)", 1);
                if std::env::var("VERIF_DEBUG").is_ok() {
                    eprintln!("=== {:?}\n{}", d.code, d.rendered.chars().take(1200).collect::<String>());
                }
            }
        }
    }
}

/// replay of a compile-only case: does the module compile now?
pub fn replay_compile(ctx: &Ctx, module: Module) -> Vec<Value> {
    let corpus = build(ctx, vec![module], &subjects::SlotCfg::default());
    corpus
        .discards
        .iter()
        // (a replayed module is one that has to compile: any rejection counts)
        .map(|d| {
            let known_sig = d.module.types.iter().any(|td| td.attrs.optional_fields == Some(false) && !td.params.is_empty());
            json!({"signature": if known_sig { "optional-fields-on-generic-bare-parameter-does-not-compile" } else { "accepted-item-does-not-compile" }, "message": d.rendered})
        })
        .collect()
}
