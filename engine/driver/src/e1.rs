//! E1: checks that run the derive pipeline in-process (harness test binary).
use std::process::Command;

use serde_json::Value;

use crate::{common::*, subjects};

pub fn run_harness(ctx: &Ctx, exe: &std::path::Path, mode: &str, exclude: &[String], replay: Option<&std::path::Path>) -> Value {
    let out = ctx.work.join(format!("e1-report-{}-{}.json", mode, std::process::id()));
    std::fs::remove_file(&out).ok();
    let mut cmd = Command::new(exe);
    cmd.args(["--exact", "verif_harness::verif_main", "--nocapture", "--test-threads", "1"])
        .env("VERIF_E1_MODE", mode)
        .env("VERIF_E1_TIER", &ctx.tier)
        .env("VERIF_SEED", ctx.seed.to_string())
        .env("VERIF_E1_OUT", &out)
        .env("VERIF_E1_EXCLUDE", exclude.join(","));
    if let Some(r) = replay {
        cmd.env("VERIF_E1_REPLAY", r);
    }
    if let Some((_, sc, nw)) = subjects::HARNESS_REQUESTED.lock().unwrap().iter().rev().find(|(e, _, _)| e == exe) {
        cmd.env("VERIF_E1_SERDE_COMPAT", if *sc { "1" } else { "0" }).env("VERIF_E1_NO_SERDE_WARNINGS", if *nw { "1" } else { "0" });
    }
    // a proc-macro test binary links libstd dynamically
    let (_, sysroot, _) = run(Command::new("rustc").current_dir(ctx.subjects()).args(["--print", "sysroot"]));
    let (_, host, _) = run(Command::new("rustc").args(["-vV"]));
    let triple = host.lines().find_map(|l| l.strip_prefix("host: ")).unwrap_or("x86_64-unknown-linux-gnu").trim().to_string();
    let mut ld = format!("{0}/lib/rustlib/{1}/lib:{0}/lib", sysroot.trim(), triple);
    if let Ok(old) = std::env::var("LD_LIBRARY_PATH") {
        ld = format!("{ld}:{old}");
    }
    cmd.env("LD_LIBRARY_PATH", ld);
    let (ok, so, se) = run(&mut cmd);
    let content = std::fs::read_to_string(&out).unwrap_or_default();
    std::fs::remove_file(&out).ok();
    if !ok || content.is_empty() {
        let tail = |s: &str| s.chars().rev().take(1500).collect::<String>().chars().rev().collect::<String>();
        inconclusive(&format!("derive harness ({mode}) did not produce a report:\n{}\n{}", tail(&so), tail(&se)));
    }
    serde_json::from_str(&content).unwrap_or_else(|e| inconclusive(&format!("bad harness report: {e}")))
}

fn absorb(out: &mut Outcome, rep: &Value, known: &[Known]) {
    out.evaluations += rep["evaluations"].as_u64().unwrap_or(0);
    out.distinct_nontrivial += rep["nontrivial"].as_u64().unwrap_or(0);
    out.bump("excluded_known", rep["excluded_known"].as_u64().unwrap_or(0));
    out.bump("discarded_not_an_item", rep["discarded"].as_u64().unwrap_or(0));
    out.add_labels(&rep["labels"]);
    if let Some(o) = rep["extra"].as_object() {
        for (k, v) in o {
            out.extra.insert(k.clone(), v.clone());
        }
    }
    if let Some(s) = rep["samples"].as_array() {
        for x in s {
            if out.samples.len() < 10 {
                out.samples.push(x.clone());
            }
        }
    }
    out.take_failures(rep["failures"].as_array().map(|v| v.as_slice()).unwrap_or(&[]), known);
}

fn known_sigs(known: &[Known]) -> Vec<String> {
    known.iter().filter(|k| k.status == "known").map(|k| k.signature.clone()).collect()
}

fn regression(ctx: &Ctx, property: &str, exe: &std::path::Path, known: &[Known], out: &mut Outcome) {
    let mut files: Vec<(std::path::PathBuf, Option<&Known>)> = vec![];
    for k in known {
        if let Some(r) = &k.replay {
            files.push((ctx.verif.join(r), Some(k)));
        }
    }
    if let Ok(rd) = std::fs::read_dir(ctx.verif.join("replays").join(property)) {
        for e in rd.flatten() {
            if e.file_name().to_string_lossy().starts_with("keep-") {
                files.push((e.path(), None));
            }
        }
    }
    for (f, k) in files {
        let Ok(text) = std::fs::read_to_string(&f) else { continue };
        let Ok(case) = serde_json::from_str::<Value>(&text) else { continue };
        let inner = if case["case"].is_object() { case["case"].clone() } else { case.clone() };
        if !matches!(inner["kind"].as_str(), Some("c09") | Some("c10") | Some("c16")) {
            continue;
        }
        let tmp = ctx.work.join(format!("e1-replay-{}.json", std::process::id()));
        std::fs::write(&tmp, inner.to_string()).unwrap();
        let rep = run_harness(ctx, exe, "replay", &[], Some(&tmp));
        std::fs::remove_file(&tmp).ok();
        out.bump("replays_run", 1);
        let fails = rep["failures"].as_array().cloned().unwrap_or_default();
        match k {
            Some(k) if k.status == "known" => {
                if !fails.is_empty() {
                    out.known_reproduced.insert(k.signature.clone(), k.what.clone());
                }
            }
            _ => {
                for fl in fails {
                    let sig = format!("regression-{}", fl["signature"].as_str().unwrap_or("x"));
                    out.violations.push((sig, fl));
                }
            }
        }
    }
}

pub fn replay_cmd(ctx: &Ctx, property: &str, file: &str) -> ! {
    lock_subjects(ctx);
    subjects::ensure(ctx, &subjects::SlotCfg::default());
    let text = std::fs::read_to_string(file).unwrap_or_else(|e| inconclusive(&format!("cannot read {file}: {e}")));
    let case: Value = serde_json::from_str(&text).unwrap_or_else(|e| inconclusive(&format!("bad replay: {e}")));
    let inner = if case["case"].is_object() { case["case"].clone() } else { case.clone() };
    let sc = inner["features"]["serde_compat"].as_bool().unwrap_or(true);
    let nw = inner["features"]["no_serde_warnings"].as_bool().unwrap_or(true);
    let exe = subjects::build_harness(ctx, sc, nw);
    let tmp = ctx.work.join(format!("e1-replay-{}.json", std::process::id()));
    std::fs::write(&tmp, inner.to_string()).unwrap();
    let rep = run_harness(ctx, &exe, "replay", &[], Some(&tmp));
    std::fs::remove_file(&tmp).ok();
    let fails = rep["failures"].as_array().cloned().unwrap_or_default();
    if fails.is_empty() {
        println!("REPLAY-PASS property={property} file={file}");
        std::process::exit(0);
    }
    println!("{}", serde_json::to_string_pretty(&fails[0]).unwrap());
    println!("VIOLATION property={property} replay={file}");
    std::process::exit(1);
}

pub fn c09(ctx: &Ctx) -> ! {
    lock_subjects(ctx);
    subjects::ensure(ctx, &subjects::SlotCfg::default());
    let known = load_known(ctx, "C09");
    let mut out = Outcome::default();
    out.rule = "8 rules x {struct field, struct-variant field via rename_all_fields, struct-variant field via variant rename_all, enum variant} x identifiers: ALL Rust identifiers of length <=4 (quick) / <=5 (thorough) over {a,b,Z,Q,0,7,_,ä,Ä,ß,中} + a pool of raw identifiers/keywords/mixed-case names + proptest identifiers up to length 16; each is put into a one-field/one-variant item (ts or serde spelling), expanded by the real derive pipeline in-process, and the name serde_derive's own case.rs computes must be among the string literals of the expansion. Non-trivial: identifier not in the canonical input form of its position ([a-z][a-z0-9]*(_[a-z0-9]+)* for fields, ([A-Z][a-z0-9]*)+ for variants); distinct by (position, rule, identifier)".into();
    out.assumptions = vec![
        "identifiers on which serde_derive itself panics (its own [..1] slice) are outside the domain; counted in labels".into(),
        "observation is the set of string literals of the expansion (a name that equals an unrelated literal would be accepted); compiled confirmation is part of C01's corpus".into(),
    ];
    let exe = subjects::build_harness(ctx, true, true);
    regression(ctx, "C09", &exe, &known, &mut out);
    let rep = run_harness(ctx, &exe, "c09", &known_sigs(&known), None);
    absorb(&mut out, &rep, &known);
    if ctx.thorough() {
        // the ts spelling alone, without serde-compat
        let exe2 = subjects::build_harness(ctx, false, false);
        let rep = run_harness(ctx, &exe2, "c09", &known_sigs(&known), None);
        absorb(&mut out, &rep, &known);
    }
    finish(ctx, "C09", out)
}

pub fn c16_inproc(ctx: &Ctx, out: &mut Outcome, known: &[Known]) {
    let exe = subjects::build_harness(ctx, true, true);
    regression(ctx, "C16", &exe, known, out);
    let rep = run_harness(ctx, &exe, "c16", &known_sigs(known), None);
    absorb(out, &rep, known);
    let exe2 = subjects::build_harness(ctx, false, false);
    let rep = run_harness(ctx, &exe2, "c16", &known_sigs(known), None);
    absorb(out, &rep, known);
}

pub fn c10(ctx: &Ctx) -> ! {
    lock_subjects(ctx);
    subjects::ensure(ctx, &subjects::SlotCfg::default());
    let known = load_known(ctx, "C10");
    let mut out = Outcome::default();
    out.rule = "valid items (structs and enums of every representation, 1-3 fields/variants, supported keys rename/rename_all/rename_all_fields/tag/content/untagged/skip/flatten at container, variant and field level) rendered in spelling variants: all-serde, all-ts, one list per key, both spellings with equal and with different values, and with one unsupported serde key (19 forms) inserted at every attribute position and list index; relations are equalities of the real expansions (multiset of leaf tokens). Three harness builds: serde-compat+no-serde-warnings, serde-compat with warnings, no serde-compat. Non-trivial: a key moved between spellings or junk adjacent to a supported key; distinct by item text".into();
    out.assumptions = vec![
        "canon() forgets token order (dependency statements and where-predicates are emitted in hash order); a defect that only reorders tokens is invisible here".into(),
        "compiled confirmation (decl() of twins) is not part of this check".into(),
    ];
    for (sc, nw) in [(true, true), (true, false), (false, true)] {
        let exe = subjects::build_harness(ctx, sc, nw);
        if sc && nw {
            regression(ctx, "C10", &exe, &known, &mut out);
        }
        let rep = run_harness(ctx, &exe, "c10", &known_sigs(&known), None);
        out.bump(&format!("evaluations_serde_compat_{sc}_no_warnings_{nw}"), rep["evaluations"].as_u64().unwrap_or(0));
        absorb(&mut out, &rep, &known);
    }
    finish(ctx, "C10", out)
}
