fn main() {}
