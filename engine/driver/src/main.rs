mod common;
mod corpus;
mod e1;
mod e2;
mod e2d;
mod e2g;
mod e2n;
mod e2p;
mod e2x;
mod e3;
mod e4;
mod subjects;

use common::*;

fn usage() -> ! {
    eprintln!("usage: verif setup | verif check <ID> quick|thorough | verif check <ID> --replay <file>");
    std::process::exit(2);
}

fn main() {
    let args: Vec<String> = std::env::args().collect();
    match args.get(1).map(|s| s.as_str()) {
        Some("setup") => {
            let ctx = Ctx::new("quick");
            lock_subjects(&ctx);
            subjects::ensure(&ctx, &subjects::SlotCfg::default());
            for p in ["purefn", "purefn_esm"] {
                let (ok, _o, e) = subjects::cargo_build(&ctx, &[p], &[]);
                if !ok {
                    eprintln!("{e}");
                    std::process::exit(1);
                }
            }
            // the three feature builds of the in-process derive harness
            for (sc, nw) in [(true, true), (true, false), (false, true), (false, false)] {
                subjects::build_harness(&ctx, sc, nw);
            }
            // dependencies of the slot crates (serde, serde_json, ts-rs)
            let pkgs: Vec<String> = (0..subjects::NSLOTS).map(|s| format!("slot{s:02}")).collect();
            let refs: Vec<&str> = pkgs.iter().map(|s| s.as_str()).collect();
            let (ok, _o, e) = subjects::cargo_build(&ctx, &refs, &[]);
            if !ok {
                eprintln!("{e}");
                std::process::exit(1);
            }
            // the libFuzzer targets (nightly, cargo-fuzz): one execution each, to have them built
            for (dir, target) in [("fuzz", "import_path"), ("fuzz", "merge"), ("fuzz_esm", "import_path")] {
                if let Err(e) = subjects::run_fuzz(&ctx, dir, target, 1) {
                    eprintln!("cargo fuzz {dir}/{target}: {e}");
                    std::process::exit(1);
                }
            }
            println!("setup ok");
        }
        Some("check") => {
            let id = args.get(2).cloned().unwrap_or_else(|| usage());
            let mode = args.get(3).cloned().unwrap_or_else(|| "quick".into());
            if mode == "--replay" {
                let file = args.get(4).cloned().unwrap_or_else(|| usage());
                let ctx = Ctx::new("quick");
                match id.as_str() {
                    "C08" => e4::replay_cmd(&ctx, &id, &file),
                    "C05" => {
                        let text = std::fs::read_to_string(&file).unwrap_or_default();
                        if text.contains("\"c05text\"") || text.contains("\"c05files\"") {
                            e4::replay_cmd(&ctx, &id, &file)
                        } else {
                            e3::replay_cmd(&ctx, &id, &file)
                        }
                    }
                    "C09" | "C10" | "C16" => e1::replay_cmd(&ctx, &id, &file),
                    "C01" | "C02" | "C03" | "C04" | "C07" | "C11" | "C12" | "C14" | "C15" => e2::replay_cmd(&ctx, &id, &file),
                    "C06" | "C17" => e3::replay_cmd(&ctx, &id, &file),
                    _ => inconclusive("replay not implemented for this property"),
                }
            }
            let tier = std::env::var("VERIF_TIER").ok().filter(|t| t == "quick" || t == "thorough").unwrap_or(mode);
            if tier != "quick" && tier != "thorough" {
                usage();
            }
            let ctx = Ctx::new(&tier);
            match id.as_str() {
                "C01" => e2::c01(&ctx),
                "C02" => e2::c02(&ctx),
                "C03" => e2x::c03(&ctx),
                "C04" => e2x::c04(&ctx),
                "C11" => e2x::c11(&ctx),
                "C12" => e2::c12(&ctx),
                "C15" => e2d::c15(&ctx),
                "C13" => e2n::c13(&ctx),
                "C07" => e2g::c07(&ctx),
                "C14" => e2p::c14(&ctx),
                "C06" => e3::c06(&ctx),
                "C17" => e3::c17(&ctx),
                "C08" => e4::c08(&ctx),
                "C09" => e1::c09(&ctx),
                "C10" => e1::c10(&ctx),
                "C16" => {
                    lock_subjects(&ctx);
                    subjects::ensure(&ctx, &subjects::SlotCfg::default());
                    let known = load_known(&ctx, "C16");
                    let mut out = Outcome::default();
                    out.rule = "items from a grammar wider than the supported fragment: struct/enum shapes (unit, empty, newtype, tuple, named; 0-4 variants) x 0-3 attribute lists per container/variant/field with any subset of ts and serde keys (valid values, wrong literal kinds, invalid inflections, malformed types, keys of other positions, 24 unknown keys, duplicates) x 9 generics forms x unusual identifiers x doc attribute forms; expanded in-process under catch_unwind, with and without serde-compat. Oracle: no panic; items whose ts-spelled (or cleanly serde-spelled) attributes contain a documented incompatibility must be rejected; a lone unknown ts key must be named in the error. Non-trivial: >=2 attribute lists, or >=2 generic parameters, or a raw/non-ASCII identifier; distinct by item text".into();
                    out.assumptions = vec!["field/variant level rejections are only expected where the derive processes the field/variant (no container type/as override, variant not skipped)".into()];
                    e1::c16_inproc(&ctx, &mut out, &known);
                    out.rule.push_str(". Compiled half: TS-only generated modules (rich generics: lifetimes, const parameters, concrete(..), defaults over earlier parameters; optional/optional_fields, flatten, inline, rename_all, unusual identifiers) are compiled against /repo; a module rustc rejects with an error code inside the expansion of derive(TS) is a violation (diagnostics the derive emits itself carry no code)");
                    if out.violations.is_empty() {
                        // replay files of the compiled half
                        for k in known.iter().filter(|k| k.replay.is_some()) {
                            let f = ctx.verif.join(k.replay.as_ref().unwrap());
                            if let Some(case) = std::fs::read_to_string(&f).ok().and_then(|t| serde_json::from_str::<serde_json::Value>(&t).ok()) {
                                if case["case"]["compile_only"] == true {
                                    if let Ok(module) = serde_json::from_value::<typegen::Module>(case["case"]["module"].clone()) {
                                        let fails = e2g::replay_compile(&ctx, module);
                                        out.bump("replays_run", 1);
                                        if k.status == "known" {
                                            out.take_failures(&fails, &known);
                                        } else {
                                            for fl in fails {
                                                out.violations.push((format!("regression-{}", fl["signature"].as_str().unwrap_or("x")), fl));
                                            }
                                        }
                                    }
                                }
                            }
                        }
                        e2g::c16_compiled(&ctx, &mut out, &known);
                    }
                    finish(&ctx, "C16", out)
                }
                "C05" => {
                    lock_subjects(&ctx);
                    let known = load_known(&ctx, "C05");
                    let mut out = Outcome::default();
                    out.rule = "text level: sets of 2-5 standalone file texts in export_to_string format (name pool with prefixes/generics, overlapping import modules, doc comments containing `export type`/`import type`/` from `, multi-line bodies with field docs) folded through merge() in all permutations (<=4 elements; 30 of 120 for 5) and all prefixes, compared with the reference combiner. Non-trivial: >=3 types with a doc comment or overlapping import modules; distinct by text set".into();
                    e4::c05_text(&ctx, &mut out, &known);
                    out.rule.push_str(". File level: generated universes of types sharing files, exported in 12 (quick) / 60 (thorough) generated permutations per universe one type at a time with the tree compared against the reference combiner after EVERY step (= all prefixes), then re-exported (idempotence); plus 8 / 60 schedules per universe: every type exported twice from 2-8 threads with a generated delay tape injected at the four yield points inside export_and_merge (hook), final tree == combiner of the full set");
                    out.assumptions.push("thread schedules are perturbed through the yield-point hook, not enumerated: detection of a narrowed critical section is probabilistic".into());
                    if out.violations.is_empty() {
                        e3::c05_files(&ctx, &mut out, &known);
                    }
                    finish(&ctx, "C05", out)
                }
                _ => inconclusive("no such check"),
            }
        }
        _ => usage(),
    }
}
