mod common;
mod e4;
mod subjects;

use common::*;

fn usage() -> ! {
    eprintln!("usage: verif setup | verif check <ID> quick|thorough | verif check <ID> --replay <file>");
    std::process::exit(2);
}

fn main() {
    let args: Vec<String> = std::env::args().collect();
    match args.get(1).map(|s| s.as_str()) {
        Some("setup") => {
            let ctx = Ctx::new("quick");
            lock_subjects(&ctx);
            subjects::ensure(&ctx, &subjects::SlotCfg::default());
            for p in ["purefn", "purefn_esm"] {
                let (ok, _o, e) = subjects::cargo_build(&ctx, &[p], &[]);
                if !ok {
                    eprintln!("{e}");
                    std::process::exit(1);
                }
            }
            println!("setup ok");
        }
        Some("check") => {
            let id = args.get(2).cloned().unwrap_or_else(|| usage());
            let mode = args.get(3).cloned().unwrap_or_else(|| "quick".into());
            if mode == "--replay" {
                let file = args.get(4).cloned().unwrap_or_else(|| usage());
                let ctx = Ctx::new("quick");
                match id.as_str() {
                    "C08" | "C05" => e4::replay_cmd(&ctx, &id, &file),
                    _ => inconclusive("replay not implemented for this property"),
                }
            }
            let tier = std::env::var("VERIF_TIER").ok().filter(|t| t == "quick" || t == "thorough").unwrap_or(mode);
            if tier != "quick" && tier != "thorough" {
                usage();
            }
            let ctx = Ctx::new(&tier);
            match id.as_str() {
                "C08" => e4::c08(&ctx),
                "C05" => {
                    lock_subjects(&ctx);
                    let known = load_known(&ctx, "C05");
                    let mut out = Outcome::default();
                    out.rule = "text level: sets of 2-5 standalone file texts in export_to_string format (name pool with prefixes/generics, overlapping import modules, doc comments containing `export type`/`import type`/` from `, multi-line bodies with field docs) folded through merge() in all permutations (<=4 elements; 30 of 120 for 5) and all prefixes, compared with the reference combiner. Non-trivial: >=3 types with a doc comment or overlapping import modules; distinct by text set".into();
                    e4::c05_text(&ctx, &mut out, &known);
                    finish(&ctx, "C05", out)
                }
                _ => inconclusive("no such check"),
            }
        }
        _ => usage(),
    }
}
