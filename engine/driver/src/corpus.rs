//! E2: generated corpora compiled against the repository and interrogated through the slot
//! servers.
use std::{
    collections::{BTreeMap, HashMap},
    io::{BufRead, BufReader, Write},
    process::{Child, ChildStdin, Command, Stdio},
    sync::mpsc::{channel, Receiver},
    time::Duration,
};

use proptest::{
    strategy::{Strategy, ValueTree},
    test_runner::{Config, RngAlgorithm, TestRng, TestRunner},
};
use serde_json::{json, Value};
use typegen::{render, Module, Profile};

use crate::{common::*, subjects};

pub fn seed_bytes(seed: u64) -> [u8; 32] {
    let mut b = [0u8; 32];
    for i in 0..4 {
        b[i * 8..i * 8 + 8].copy_from_slice(&(seed.wrapping_add(i as u64).wrapping_mul(0x9E3779B97F4A7C15)).to_le_bytes());
    }
    b
}

pub fn runner(seed: u64) -> TestRunner {
    TestRunner::new_with_rng(
        Config { failure_persistence: None, ..Config::default() },
        TestRng::from_seed(RngAlgorithm::ChaCha, &seed_bytes(seed)),
    )
}

/// word tapes from proptest (the only source of randomness of the corpus)
pub fn tapes(seed: u64, n: usize, len: usize) -> Vec<Vec<u32>> {
    let mut r = runner(seed);
    let strat = proptest::collection::vec(proptest::num::u32::ANY, len);
    (0..n).map(|_| strat.new_tree(&mut r).unwrap().current()).collect()
}

pub fn byte_tapes(seed: u64, n: usize, len: usize) -> Vec<Vec<u8>> {
    let mut r = runner(seed);
    let strat = proptest::collection::vec(proptest::num::u8::ANY, len);
    let mut out: Vec<Vec<u8>> = vec![vec![0; 4], vec![255; len], vec![128; len]];
    out.extend((0..n.saturating_sub(3)).map(|_| strat.new_tree(&mut r).unwrap().current()));
    out
}

pub struct Server {
    child: Child,
    stdin: ChildStdin,
    rx: Receiver<String>,
    pub dead: bool,
}

impl Server {
    pub fn start(bin: &std::path::Path, cwd: &std::path::Path) -> Result<Server, String> {
        let mut child = Command::new(bin)
            .current_dir(cwd)
            .stdin(Stdio::piped())
            .stdout(Stdio::piped())
            .stderr(Stdio::null())
            .env_remove("TS_RS_EXPORT_DIR")
            .spawn()
            .map_err(|e| format!("cannot start {}: {e}", bin.display()))?;
        let stdin = child.stdin.take().unwrap();
        let stdout = child.stdout.take().unwrap();
        let (tx, rx) = channel();
        std::thread::spawn(move || {
            let r = BufReader::new(stdout);
            for line in r.lines() {
                match line {
                    Ok(l) => {
                        if tx.send(l).is_err() {
                            break;
                        }
                    }
                    Err(_) => break,
                }
            }
        });
        Ok(Server { child, stdin, rx, dead: false })
    }

    /// `Err("died")`: the process ended (stack overflow, abort) while handling the request;
    /// `Err("timeout")`: no answer within the limit.
    pub fn request(&mut self, req: &Value) -> Result<Value, String> {
        if self.dead {
            return Err("died".into());
        }
        if writeln!(self.stdin, "{}", req).is_err() || self.stdin.flush().is_err() {
            self.dead = true;
            return Err("died".into());
        }
        match self.rx.recv_timeout(Duration::from_secs(120)) {
            Ok(l) => serde_json::from_str(&l).map_err(|e| format!("bad answer: {e}")),
            Err(std::sync::mpsc::RecvTimeoutError::Timeout) => {
                self.child.kill().ok();
                self.dead = true;
                Err("timeout".into())
            }
            Err(_) => {
                self.dead = true;
                Err("died".into())
            }
        }
    }
}

impl Drop for Server {
    fn drop(&mut self) {
        let _ = writeln!(self.stdin, "{}", json!({"cmd": "quit"}));
        let _ = self.stdin.flush();
        std::thread::sleep(Duration::from_millis(5));
        self.child.kill().ok();
        self.child.wait().ok();
    }
}

pub struct Placed {
    pub module: Module,
    pub slot: usize,
    /// index of the module inside its slot registry
    pub index: usize,
}

#[derive(Clone, Debug)]
pub struct Discard {
    pub module: Module,
    pub rendered: String,
    /// rustc error code (`E0277`); `None` for errors reported by a macro (compile_error!)
    pub code: Option<String>,
    /// the error sits inside the expansion of `#[derive(TS)]`
    pub in_derive_ts: bool,
}

pub struct Corpus {
    pub modules: Vec<Placed>,
    pub discards: Vec<Discard>,
    pub discarded_by_rustc: usize,
    pub discarded_samples: Vec<String>,
    pub build_rounds: usize,
}

/// Render the modules into the slot crates, build, drop modules rustc rejects, rebuild.
/// `check_only`: do not link (C16's compile verdict).
pub fn build(ctx: &Ctx, modules: Vec<Module>, slot_cfg: &subjects::SlotCfg) -> Corpus {
    subjects::ensure(ctx, slot_cfg);
    let rt_path = ctx.verif.join("engine/rt/src/lib.rs");
    let mut alive: Vec<Option<Module>> = modules.into_iter().map(Some).collect();
    let mut discarded = 0usize;
    let mut discarded_samples = vec![];
    let mut discards: Vec<Discard> = vec![];
    let mut rounds = 0;
    let mut unattributed_slots = 0usize;
    loop {
        rounds += 1;
        // distribute round robin
        let mut per_slot: Vec<Vec<usize>> = vec![vec![]; subjects::NSLOTS];
        for (i, m) in alive.iter().enumerate() {
            if m.is_some() {
                per_slot[i % subjects::NSLOTS].push(i);
            }
        }
        let mut span_tables: Vec<Vec<(String, usize, usize)>> = vec![];
        for (s, idxs) in per_slot.iter().enumerate() {
            let mods: Vec<&Module> = idxs.iter().map(|i| alive[*i].as_ref().unwrap()).collect();
            let (src, spans) = render::render_slot(&mods, &rt_path.to_string_lossy());
            write_if_changed(&ctx.subjects().join(format!("slot{s:02}/src/main.rs")), &src);
            span_tables.push(spans);
        }
        let pkgs: Vec<String> = (0..subjects::NSLOTS).map(|s| format!("slot{s:02}")).collect();
        let pkg_refs: Vec<&str> = pkgs.iter().map(|s| s.as_str()).collect();
        let (ok, out, err) = subjects::cargo_build(ctx, &pkg_refs, &["--message-format=json", "--keep-going"]);
        if ok {
            break;
        }
        // attribute errors to modules
        let mut bad: BTreeMap<String, String> = BTreeMap::new();
        let mut bad_meta: BTreeMap<String, (Option<String>, bool)> = BTreeMap::new();
        let mut unattributed = vec![];
        for line in out.lines() {
            let Ok(v) = serde_json::from_str::<Value>(line) else { continue };
            if v["reason"] != "compiler-message" || v["message"]["level"] != "error" {
                continue;
            }
            let rendered = v["message"]["rendered"].as_str().unwrap_or("").to_string();
            let code = v["message"]["code"]["code"].as_str().map(|s| s.to_string());
            // (errors about the `TS` trait can only stem from the derive's expansion, even when rustc
            // points at the user's own generic parameter)
            let in_derive_ts = v["message"].to_string().contains("derive(ts_rs::TS") || rendered.contains("derive macro `ts_rs::TS`") || rendered.contains("trait `TS`") || rendered.contains("ts_rs::TS");
            let mut found = false;
            fn spans_of(msg: &Value, out: &mut Vec<(String, usize)>) {
                if let Some(sp) = msg["spans"].as_array() {
                    for s in sp {
                        let mut cur = s.clone();
                        // walk out of macro expansions to the call site
                        loop {
                            out.push((cur["file_name"].as_str().unwrap_or("").to_string(), cur["line_start"].as_u64().unwrap_or(0) as usize));
                            let next = cur["expansion"]["span"].clone();
                            if next.is_null() {
                                break;
                            }
                            cur = next;
                        }
                    }
                }
                if let Some(ch) = msg["children"].as_array() {
                    for c in ch {
                        spans_of(c, out);
                    }
                }
            }
            let mut sps = vec![];
            spans_of(&v["message"], &mut sps);
            for (file, line_no) in sps {
                if let Some(pos) = file.find("slot") {
                    if let Ok(s) = file[pos + 4..pos + 6].parse::<usize>() {
                        if file.ends_with("src/main.rs") {
                            for (name, a, b) in &span_tables[s.min(subjects::NSLOTS - 1)] {
                                if line_no >= *a && line_no <= *b {
                                    bad.entry(name.clone()).or_insert_with(|| rendered.clone());
                                    bad_meta.entry(name.clone()).or_insert_with(|| (code.clone(), in_derive_ts));
                                    found = true;
                                }
                            }
                        }
                    }
                }
            }
            if !found && !rendered.contains("aborting due to") && !rendered.contains("could not compile") {
                unattributed.push(rendered);
            }
        }
        // errors without a usable span (e.g. "queries overflow the depth limit"): drop every
        // module of the slots that failed, as long as that is a small part of the corpus
        if bad.is_empty() && rounds <= 4 {
            let mut failed_slots = std::collections::BTreeSet::new();
            for line in out.lines() {
                let Ok(v) = serde_json::from_str::<Value>(line) else { continue };
                if v["reason"] == "compiler-message" && v["message"]["level"] == "error" {
                    let pid = v["package_id"].as_str().unwrap_or("");
                    if let Some(pos) = pid.find("slot") {
                        if let Ok(s) = pid[pos + 4..pos + 6].parse::<usize>() {
                            failed_slots.insert(s);
                        }
                    }
                }
            }
            if !failed_slots.is_empty() && failed_slots.len() <= 3 {
                for s in &failed_slots {
                    for (name, _, _) in &span_tables[*s] {
                        bad.insert(name.clone(), format!("(unattributed) {}", unattributed.first().cloned().unwrap_or_default()));
                    }
                }
                unattributed_slots += failed_slots.len();
            }
        }
        if bad.is_empty() || rounds > 4 {
            let tail = |s: &str| s.chars().rev().take(2500).collect::<String>().chars().rev().collect::<String>();
            inconclusive(&format!(
                "slot build failed and the errors cannot be attributed to generated modules (is /repo compiling?):\n{}\n{}",
                unattributed.iter().take(3).cloned().collect::<Vec<_>>().join("\n"),
                tail(&err)
            ));
        }
        for (i, m) in alive.iter_mut().enumerate() {
            let _ = i;
            if let Some(mm) = m {
                if let Some(msg) = bad.get(&mm.name) {
                    if discarded_samples.len() < 5 {
                        discarded_samples.push(format!("{}\n--- module source ---\n{}", msg.chars().take(1500).collect::<String>(), render::render_module(mm).chars().take(3000).collect::<String>()));
                    }
                    let (code, in_derive_ts) = bad_meta.get(&mm.name).cloned().unwrap_or((None, false));
                    discards.push(Discard { module: mm.clone(), rendered: msg.clone(), code, in_derive_ts });
                    *m = None;
                    discarded += 1;
                }
            }
        }
    }
    // final placement (same distribution as the last render)
    let mut placed = vec![];
    let mut counters = vec![0usize; subjects::NSLOTS];
    for (i, m) in alive.into_iter().enumerate() {
        if let Some(m) = m {
            let slot = i % subjects::NSLOTS;
            placed.push(Placed { module: m, slot, index: counters[slot] });
            counters[slot] += 1;
        }
    }
    let _ = unattributed_slots;
    Corpus { modules: placed, discards, discarded_by_rustc: discarded, discarded_samples, build_rounds: rounds }
}

/// run `f` for every module, one thread per slot, each with its own server
pub fn for_each_module<R: Send>(
    ctx: &Ctx,
    corpus: &Corpus,
    f: impl Fn(&Placed, &mut Server, &std::path::Path) -> R + Sync,
) -> Vec<(usize, R)> {
    let by_slot: HashMap<usize, Vec<usize>> = corpus.modules.iter().enumerate().fold(HashMap::new(), |mut m, (i, p)| {
        m.entry(p.slot).or_default().push(i);
        m
    });
    let results = std::sync::Mutex::new(vec![]);
    std::thread::scope(|s| {
        for (slot, idxs) in &by_slot {
            let (f, results) = (&f, &results);
            s.spawn(move || {
                let bin = subjects::bin_path(ctx, &format!("slot{slot:02}"));
                let cwd = ctx.work.join(format!("slotcwd{slot:02}"));
                std::fs::remove_dir_all(&cwd).ok();
                std::fs::create_dir_all(&cwd).unwrap();
                let mut server = match Server::start(&bin, &cwd) {
                    Ok(s) => s,
                    Err(e) => inconclusive(&e),
                };
                for i in idxs {
                    if server.dead {
                        // a previous module killed the server: restart for the remaining ones
                        server = match Server::start(&bin, &cwd) {
                            Ok(s) => s,
                            Err(e) => inconclusive(&e),
                        };
                    }
                    let r = f(&corpus.modules[*i], &mut server, &cwd);
                    results.lock().unwrap().push((*i, r));
                }
            });
        }
    });
    let mut v = results.into_inner().unwrap();
    v.sort_by_key(|x| x.0);
    v
}

pub fn gen_modules(ctx: &Ctx, profile: &Profile, n: usize, salt: u64) -> Vec<Module> {
    tapes(ctx.seed.wrapping_mul(1_000_003).wrapping_add(salt), n, 600)
        .iter()
        .enumerate()
        .map(|(i, t)| typegen::gen_module(t, profile, &format!("m{i:03}")))
        .collect()
}

/// info of every registered type of a module
pub fn module_infos(p: &Placed, server: &mut Server) -> Result<Vec<Value>, String> {
    let mut out = vec![];
    for t in 0..p.module.insts.len() {
        out.push(server.request(&json!({"cmd": "info", "m": p.index, "t": t}))?);
    }
    Ok(out)
}

pub fn okstr<'a>(v: &'a Value, key: &str) -> Option<&'a str> {
    v[key]["ok"].as_str()
}
