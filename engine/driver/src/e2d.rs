//! C15: doc comments are carried over, contained, and never alter the type.
use std::collections::{BTreeMap, BTreeSet, HashSet};

use serde_json::{json, Value};
use typegen::{render, Doc, DocStyle, Module, Profile};

use crate::{
    common::*,
    corpus::*,
    e2::{case_of, view, ModResult},
    e2x::{snapshot, well_formed},
    subjects,
};

pub fn profile_docs() -> Profile {
    let mut p = Profile::base("docs");
    p.max_types = 4;
    p.docs = 70;
    p.nasty_docs = true;
    p.blank_block_lines = true;
    p.export_to = 75;
    p.shared_files = 70;
    p.inline = 15;
    p.flatten = 12;
    p.no_parent_escape = true;
    p.flatten_tower = 20;
    p
}

fn map_docs(m: &Module, f: &dyn Fn(&Doc) -> Option<Doc>) -> Module {
    let mut out = m.clone();
    let g = |d: &mut Option<Doc>| {
        if let Some(x) = d.as_ref() {
            *d = f(x);
        }
    };
    for td in out.types.iter_mut() {
        g(&mut td.docs);
        if let typegen::Body::Enum(vs) = &mut td.body {
            for v in vs.iter_mut() {
                g(&mut v.docs);
            }
        }
        for fld in td.all_fields_mut() {
            g(&mut fld.docs);
        }
    }
    out
}

/// the doc texts a file is expected to carry for the definition `def`: (marker, lines)
fn expected_docs(m: &Module, def: usize) -> Vec<(String, Vec<String>)> {
    let td = &m.types[def];
    let mut out = vec![];
    let mut push = |d: &Option<Doc>| {
        if let Some(d) = d {
            let marker = d.lines.iter().find_map(|l| l.find("[doc#").map(|i| l[i..].split(']').next().unwrap_or("").to_string() + "]"));
            if let Some(mk) = marker {
                out.push((mk, d.lines.clone()));
            }
        }
    };
    push(&td.docs);
    let named = |fs: &Vec<typegen::Field>, push: &mut dyn FnMut(&Option<Doc>)| {
        for f in fs {
            // skipped fields vanish, flattened fields lose their docs (documented), type overrides keep them
            if !f.skip && !f.flatten && f.ident.is_some() {
                push(&f.docs);
            }
        }
    };
    match &td.body {
        typegen::Body::Named(fs) => named(fs, &mut push),
        typegen::Body::Enum(vs) => {
            for v in vs {
                if v.skip {
                    continue;
                }
                if let typegen::VBody::Named(fs) = &v.body {
                    named(fs, &mut push);
                }
            }
        }
        _ => (),
    }
    out
}

/// comment conditions on one file text; `expect`: docs that must be present
fn check_comments(text: &str, expect: &[(String, Vec<String>)], all_markers_of_module: &BTreeSet<String>) -> Result<usize, String> {
    let m = tsmodel::parse_module(text).map_err(|e| format!("does not parse: {e}"))?;
    // comments attached to declarations / properties
    let mut attached: Vec<(tsmodel::Comment, u32)> = vec![];
    for d in &m.decls {
        for c in &d.docs {
            attached.push((c.clone(), d.lo));
        }
        let mut props = vec![];
        tsmodel::collect_props(&d.body, &mut props);
        for p in props {
            for c in &p.docs {
                attached.push((c.clone(), p.lo));
            }
        }
    }
    let blocks: Vec<&tsmodel::Comment> = m.comments.iter().filter(|c| c.block).collect();
    for b in &blocks {
        if !attached.iter().any(|(c, _)| c.lo == b.lo) {
            return Err(format!("block comment /*{}*/ is not attached to a declaration or property", b.text.chars().take(80).collect::<String>()));
        }
        if !all_markers_of_module.iter().any(|mk| b.text.contains(mk.as_str())) {
            return Err(format!("comment /*{}*/ does not stem from any doc comment of the module", b.text.chars().take(80).collect::<String>()));
        }
    }
    for (c, node_lo) in &attached {
        if !c.block {
            continue;
        }
        let between = &text[c.hi as usize..*node_lo as usize];
        if !between.chars().all(|ch| ch.is_whitespace()) {
            return Err(format!("something other than white space between the comment and the documented item: {between:?}"));
        }
    }
    let mut found = 0;
    for (marker, lines) in expect {
        let holders: Vec<&(tsmodel::Comment, u32)> = attached.iter().filter(|(c, _)| c.block && c.text.contains(marker.as_str())).collect();
        if holders.is_empty() {
            return Err(format!("documentation {marker} {:?} does not appear as a comment attached to its item", lines));
        }
        for (c, _) in holders {
            for l in lines {
                // `*/` is emitted as `*\/` (it would end the block)
                let needle = l.replace("*/", "*\\/");
                if !c.text.contains(needle.trim_end()) {
                    return Err(format!("doc line {l:?} of {marker} is not contained in its comment /*{}*/", c.text));
                }
            }
            found += 1;
        }
    }
    Ok(found)
}

fn markers_of(m: &Module) -> BTreeSet<String> {
    let mut out = BTreeSet::new();
    for i in 0..m.types.len() {
        // all docs, including the ones that are legitimately dropped
        let td = &m.types[i];
        let mut all: Vec<&Option<Doc>> = vec![&td.docs];
        for f in td.all_fields() {
            all.push(&f.docs);
        }
        for d in all.into_iter().flatten() {
            if let Some(mk) = d.lines.iter().find_map(|l| l.find("[doc#").map(|i| l[i..].split(']').next().unwrap_or("").to_string() + "]")) {
                out.insert(mk);
            }
        }
    }
    out
}

/// set while replay files are evaluated: the merge check then also runs on modules whose docs
/// trigger the listed merge findings (that is what those replays are for)
pub static FORCE_MERGE: std::sync::atomic::AtomicBool = std::sync::atomic::AtomicBool::new(false);

pub fn c15_module(p: &Placed, server: &mut Server, cwd: &std::path::Path) -> ModResult {
    let mut r = ModResult::default();
    r.labels = p.module.labels();
    let v = match view(p, server) {
        Ok(v) => v,
        Err(e) => {
            r.failures.push(json!({"signature": format!("server-{e}"), "message": format!("the compiled module {e}"), "case": case_of(p, json!({}))}));
            return r;
        }
    };
    if v.problems.iter().any(|pr| pr["unsupported"] == true) {
        r.extra.push(("discarded_unsupported".into(), 1));
        return r;
    }
    // payload: comment-free declarations, for the twin comparison
    let mut decls = vec![];
    for info in &v.infos {
        let d = okstr(info, "decl").and_then(|s| tsmodel::parse_module(s).ok()).and_then(|m| m.decls.into_iter().next());
        decls.push(match d {
            Some(d) => format!("{}<{:?}> = {:?}", d.name, d.params.iter().map(|(n, t)| (n.clone(), t.as_ref().map(tsmodel::erase_meta))).collect::<Vec<_>>(), tsmodel::erase_meta(&d.body)),
            None => format!("unparsable: {}", info["decl"]),
        });
    }
    r.payload = Some(json!(decls));
    let markers = markers_of(&p.module);
    // standalone texts
    for (t, inst) in p.module.insts.iter().enumerate() {
        let typegen::TyExpr::User(def, _) = inst else { continue };
        let label = render::render_ty(inst, &p.module);
        let Some(text) = okstr(&v.infos[t], "export_to_string") else {
            r.failures.push(json!({"signature": "export-to-string-failed", "message": format!("export_to_string of {label}: {}", v.infos[t]["export_to_string"]), "case": case_of(p, json!({"type": label}))}));
            continue;
        };
        r.evaluations += 1;
        let mut names = BTreeSet::new();
        names.insert(p.module.types[*def].ts_name());
        if let Err(e) = well_formed(text, Some(&names)) {
            r.failures.push(json!({"signature": "doc-breaks-file", "message": format!("export_to_string of `{label}`: {e}\n--- text ---\n{text}"), "case": case_of(p, json!({"type": label}))}));
            continue;
        }
        match check_comments(text, &expected_docs(&p.module, *def), &markers) {
            Ok(n) => r.extra.push(("doc_comments_verified".into(), n as u64)),
            Err(e) => r.failures.push(json!({"signature": "doc-comment-misplaced", "message": format!("`{label}`: {e}\n--- text ---\n{text}"), "case": case_of(p, json!({"type": label}))})),
        }
    }
    // merged into shared files: known findings of the merge excluded by construction
    // (every doc text can be merged into a shared file)
    let mergeable = true;
    let force = FORCE_MERGE.load(std::sync::atomic::Ordering::Relaxed);
    let merge_sig = if mergeable { "doc-comment-misplaced-in-file" } else { "doc-torn-by-same-file-merge" };
    if r.failures.is_empty() && (mergeable || force) {
        let base = cwd.join(format!("docs_{}", p.module.name));
        std::fs::remove_dir_all(&base).ok();
        std::fs::create_dir_all(&base).ok();
        let _ = server.request(&json!({"cmd": "reset"}));
        for t in 0..p.module.insts.len() {
            let _ = server.request(&json!({"cmd": "export", "m": p.index, "t": t, "how": "export_all_to", "dir": base.to_string_lossy()}));
        }
        let tree = snapshot(&base);
        // which definitions live in which file
        let mut by_file: BTreeMap<String, Vec<usize>> = BTreeMap::new();
        for (i, td) in p.module.types.iter().enumerate() {
            if let Some(c) = oracles::paths::normalize(&base.to_string_lossy(), &td.expected_path()) {
                by_file.entry(oracles::paths::join(&c)).or_default().push(i);
            }
        }
        for (file, defs) in by_file {
            let Some(text) = tree.get(&file) else { continue };
            r.evaluations += 1;
            let mut expect = vec![];
            for d in &defs {
                expect.extend(expected_docs(&p.module, *d));
            }
            if defs.len() >= 2 {
                r.extra.push(("shared_files_checked".into(), 1));
            }
            let names: BTreeSet<String> = defs.iter().map(|d| p.module.types[*d].ts_name()).collect();
            let verdict = match well_formed(text, Some(&names)) {
                Err(e) => Err(e),
                Ok(_) => check_comments(text, &expect, &markers),
            };
            match verdict {
                Ok(n) => r.extra.push(("doc_comments_verified_in_files".into(), n as u64)),
                Err(e) => {
                    r.failures.push(json!({"signature": merge_sig, "message": format!("{file}: {e}\n--- file ---\n{text}"), "case": case_of(p, json!({}))}));
                    break;
                }
            }
        }
        std::fs::remove_dir_all(&base).ok();
    } else if !mergeable {
        r.extra.push(("modules_not_merged(known merge findings)".into(), 1));
    }
    // non-trivial: a doc text with a character outside [A-Za-z0-9 .,] or >= 2 lines
    let nt = p.module.types.iter().any(|td| {
        let mut all: Vec<&Option<Doc>> = vec![&td.docs];
        for f in td.all_fields() {
            all.push(&f.docs);
        }
        all.into_iter().flatten().any(|d| d.lines.len() >= 2 || d.lines.iter().any(|l| l.chars().any(|c| !(c.is_ascii_alphanumeric() || " .,[]#".contains(c)))))
    });
    if nt {
        r.nontrivial_hashes.push(fnv(&render::render_module(&p.module)));
    }
    r
}

pub fn c15(ctx: &Ctx) -> ! {
    lock_subjects(ctx);
    let known = load_known(ctx, "C15");
    let mut out = Outcome::default();
    out.rule = "generated types with doc comments (line / #[doc] / block style; 1-4 lines from a pool containing `export type`, `import type`, quotes, backslashes, `/*`, globs with `*/`, empty lines, non-ASCII, a 250 character line) on containers, named fields, variants, variant fields and flattened fields; every module is compiled three times: as generated, with all docs removed, with different docs (lines reversed, other style). Oracle: (1) the comment-free swc ASTs of decl() of the three twins are identical; (2) every doc comment of a type or named field appears as exactly one block comment that swc attaches to the declaration / property, separated from it by white space only, containing every doc line (`*/` emitted as `*\\/`), and no other comment exists; (3) export_to_string() satisfies C04's conditions; (4) the same on the files written when the module's types are exported into shared files. Non-trivial: a doc with >=2 lines or a character outside [A-Za-z0-9 .,]; distinct by module text".into();
    out.assumptions = vec!["docs of flattened fields and of variants are documented as dropped".into(), "modules whose docs trigger the listed C05 merge findings (empty line in a block comment, `export type` in a field doc) are checked standalone only".into()];
    let rounds = if ctx.thorough() { 5 } else { 1 };
    let mut distinct = HashSet::new();
    FORCE_MERGE.store(true, std::sync::atomic::Ordering::Relaxed);
    crate::e2::regression(ctx, "C15", &known, &mut out);
    FORCE_MERGE.store(false, std::sync::atomic::Ordering::Relaxed);
    // cells: default features; without serde-compat (TS-only modules, every attribute in ts
    // spelling) - the documentation must be carried over there just the same
    for round_cell in 0..rounds * 2 {
        let (round, bare) = (round_cell / 2, round_cell % 2 == 1);
        let mut profile = profile_docs();
        let cfg = if bare {
            profile.serde = false;
            subjects::SlotCfg { features: vec![], default_features: false, ..Default::default() }
        } else {
            subjects::SlotCfg::default()
        };
        let base = gen_modules(ctx, &profile, if bare { 16 * 2 } else { 16 * 4 }, 0xC15 + round as u64 * 7919 + bare as u64 * 104729);
        let mut all = vec![];
        for b in &base {
            let mut s = map_docs(b, &|_| None);
            s.name = format!("{}s", b.name);
            let mut c = map_docs(b, &|d| {
                let mut lines: Vec<String> = d.lines.iter().rev().cloned().collect();
                lines.push(" changed.".into());
                // (`///` followed by a text that starts with `/` is `////..`: not a doc comment)
                let slash = lines.iter().any(|l| l.starts_with('/'));
                let style = match d.style {
                    DocStyle::Line => DocStyle::Attr,
                    DocStyle::Attr | DocStyle::Block | DocStyle::BlockThenAttrs if slash => DocStyle::Attr,
                    DocStyle::Attr => DocStyle::Line,
                    DocStyle::Block => DocStyle::Line,
                    DocStyle::BlockThenAttrs => DocStyle::Block,
                };
                Some(Doc { lines, style })
            });
            c.name = format!("{}c", b.name);
            all.push(b.clone());
            all.push(s);
            all.push(c);
        }
        let corpus = build(ctx, all, &cfg);
        out.bump("modules", corpus.modules.len() as u64);
        if bare {
            out.bump("modules_without_serde_compat", corpus.modules.len() as u64);
        }
        out.bump("discarded_by_rustc", corpus.discarded_by_rustc as u64);
        let results = for_each_module(ctx, &corpus, |p, s, cwd| c15_module(p, s, cwd));
        let mut payloads: BTreeMap<String, Value> = BTreeMap::new();
        for (i, r) in &results {
            if let Some(pl) = &r.payload {
                payloads.insert(corpus.modules[*i].module.name.clone(), pl.clone());
            }
        }
        for (i, r) in results {
            let p = &corpus.modules[i];
            out.evaluations += r.evaluations;
            for l in r.labels {
                *out.labels.entry(l).or_default() += 1;
            }
            for h in r.nontrivial_hashes {
                if distinct.insert(h) {
                    out.distinct_nontrivial += 1;
                }
            }
            for (k, n) in r.extra {
                out.bump(&k, n);
            }
            out.take_failures(&r.failures, &known);
            // twin comparison (on the base module)
            let name = &p.module.name;
            if !name.ends_with('s') && !name.ends_with('c') {
                for suffix in ["s", "c"] {
                    if let (Some(a), Some(b)) = (payloads.get(name), payloads.get(&format!("{name}{suffix}"))) {
                        out.evaluations += 1;
                        out.bump("twin_pairs_compared", 1);
                        if a != b {
                            let which = if suffix == "s" { "without docs" } else { "with different docs" };
                            let (aa, bb) = (a.as_array().cloned().unwrap_or_default(), b.as_array().cloned().unwrap_or_default());
                            let diff = aa.iter().zip(bb.iter()).find(|(x, y)| x != y).map(|(x, y)| format!("{x}\n  vs\n{y}")).unwrap_or_default();
                            out.take_failures(&[json!({"signature": "docs-alter-type", "message": format!("the declared type differs from its twin {which}:\n{diff}"), "case": case_of(p, json!({}))})], &known);
                        } else if out.samples.len() < 3 && p.module.labels().iter().any(|l| l == "docs_field") {
                            out.samples.push(json!({"module_with_docs": render::render_module(&p.module).chars().take(1500).collect::<String>(), "twin": which_twin(suffix)}));
                        }
                    }
                }
            }
        }
        if !out.violations.is_empty() {
            break;
        }
    }
    finish(ctx, "C15", out)
}

fn which_twin(s: &str) -> &'static str {
    if s == "s" { "docs removed: identical comment-free AST" } else { "docs changed: identical comment-free AST" }
}

/// replay: the module and its doc-free twin
pub fn replay_with_twin(ctx: &Ctx, mut module: Module) -> Vec<Value> {
    FORCE_MERGE.store(true, std::sync::atomic::Ordering::Relaxed);
    module.name = "m000".into();
    let mut twin = map_docs(&module, &|_| None);
    twin.name = "m000s".into();
    let corpus = build(ctx, vec![module, twin], &subjects::SlotCfg::default());
    let results = for_each_module(ctx, &corpus, |p, s, cwd| c15_module(p, s, cwd));
    let mut fails = vec![];
    let mut payloads = vec![];
    for (i, r) in results {
        fails.extend(r.failures);
        payloads.push((corpus.modules[i].module.name.clone(), r.payload));
    }
    if payloads.len() == 2 && payloads[0].1 != payloads[1].1 {
        fails.push(json!({"signature": "docs-alter-type", "message": "the declared type differs from its doc-free twin"}));
    }
    fails
}
