//! C13: bindings are a deterministic function of source and configuration.
//! The same generated source is compiled in K slot crates (K independent rustc processes, hence K
//! hash seeds inside the derive); every binary dumps its strings repeatedly and exports under
//! generated orders and thread counts; everything must be byte-identical.
use std::collections::{BTreeMap, HashSet};

use serde_json::{json, Value};
use typegen::{render, Profile};

use crate::{
    common::*,
    corpus::*,
    e2::{case_of, ModResult},
    e2x::snapshot,
    subjects,
};

pub fn profile_many_deps() -> Profile {
    let mut p = Profile::base("many-deps");
    p.max_types = 7;
    p.user_refs = 75;
    p.generics = 40;
    p.export_to = 60;
    p.shared_files = 55;
    p.no_parent_escape = true;
    p.doc_merge_safe = false;
    p.blank_block_lines = true;
    p.docs = 10;
    p.inline = 15;
    p.flatten = 12;
    p.unit_enum_bias = 20;
    p.prefix_names = 25;
    p.twin_names = 25;
    p.cycles = 25;
    p
}

fn rel_tree(base: &std::path::Path) -> BTreeMap<String, String> {
    let b = base.to_string_lossy().into_owned();
    snapshot(base).into_iter().map(|(k, v)| (k.strip_prefix(&b).unwrap_or(&k).to_string(), v)).collect()
}

pub fn c13_module(p: &Placed, server: &mut Server, cwd: &std::path::Path, seed: u64, nsched: usize) -> ModResult {
    let mut r = ModResult::default();
    r.labels = p.module.labels();
    let n = p.module.insts.len();
    // (i) repeated dumps inside one process
    let mut first: Vec<Value> = vec![];
    for rep in 0..12 {
        for t in 0..n {
            let info = match server.request(&json!({"cmd": "info", "m": p.index, "t": t})) {
                Ok(i) => i,
                Err(e) => {
                    r.failures.push(json!({"signature": format!("server-{e}"), "message": format!("server {e}"), "case": case_of(p, json!({}))}));
                    return r;
                }
            };
            let dump = json!({
                "name": info["name"], "ident": info["ident"], "decl": info["decl"], "decl_concrete": info["decl_concrete"], "inline": info["inline"],
                "inline_flattened": info["inline_flattened"], "export_to_string": info["export_to_string"], "output_path": info["output_path"], "docs": info["docs"],
            });
            r.evaluations += 1;
            if rep == 0 {
                first.push(dump);
            } else if first[t] != dump {
                r.failures.push(json!({"signature": "dump-differs-between-calls", "message": format!("two calls in one process returned different strings for `{}`:\n{}\n  vs\n{}", render::render_ty(&p.module.insts[t], &p.module), first[t], dump), "case": case_of(p, json!({}))}));
                return r;
            }
        }
    }
    // (ii) exports under generated orders / thread counts
    let base = cwd.join(format!("det_{}", p.module.name));
    let tapes = crate::corpus::tapes(seed ^ fnv(&p.module.name) ^ 0xC13, nsched, 48);
    let mut reference: Option<BTreeMap<String, String>> = None;
    let mut many_imports = false;
    for (k, tape) in tapes.iter().enumerate() {
        let mut t = typegen::Tape::new(tape);
        let mut order: Vec<usize> = (0..n).collect();
        for i in (1..order.len()).rev() {
            order.swap(i, t.choose(i + 1));
        }
        let nthreads = *t.pick(&[1usize, 1, 2, 8, 16]);
        std::fs::remove_dir_all(&base).ok();
        std::fs::create_dir_all(&base).ok();
        let _ = server.request(&json!({"cmd": "reset"}));
        let mut jobs: Vec<Vec<Value>> = vec![vec![]; nthreads];
        for (i, inst) in order.iter().enumerate() {
            jobs[i % nthreads].push(json!({"m": p.index, "t": inst, "how": "export_all_to", "dir": base.to_string_lossy()}));
        }
        let delays: Vec<u32> = (0..16).map(|_| *t.pick(&[0u32, 0, 1, 50, 200])).collect();
        let resp = server.request(&json!({"cmd": "par_export", "jobs": jobs, "delays": delays}));
        r.evaluations += 1;
        match resp {
            Err(e) => {
                r.failures.push(json!({"signature": format!("server-{e}"), "message": format!("export schedule: server {e}"), "case": case_of(p, json!({"order": order, "threads": nthreads}))}));
                break;
            }
            Ok(_) => {
                let tree = rel_tree(&base);
                if tree.values().any(|v| v.matches("import type").count() >= 2) || tree.values().any(|v| v.matches("export type").count() >= 2) {
                    many_imports = true;
                }
                match &reference {
                    None => reference = Some(tree),
                    Some(r0) => {
                        if *r0 != tree {
                            let diff = r0.iter().find(|(f, v)| tree.get(*f) != Some(*v)).map(|(f, v)| format!("{f}:\n--- first schedule ---\n{v}\n--- this schedule ---\n{}", tree.get(f).cloned().unwrap_or_else(|| "<missing>".into()))).unwrap_or_else(|| "different file sets".into());
                            r.failures.push(json!({"signature": "tree-differs-between-schedules", "message": format!("schedule {k} (order {order:?}, {nthreads} threads) produced a different tree than the first schedule: {diff}"), "case": case_of(p, json!({"order": order, "threads": nthreads}))}));
                            break;
                        }
                    }
                }
            }
        }
    }
    std::fs::remove_dir_all(&base).ok();
    r.payload = Some(json!({"dumps": first, "tree": reference}));
    let ndeps = p.module.labels().iter().filter(|l| l.as_str() == "user_ref").count();
    if many_imports || ndeps > 0 {
        r.nontrivial_hashes.push(fnv(&render::render_module(&p.module)));
    }
    r
}

pub fn c13(ctx: &Ctx) -> ! {
    lock_subjects(ctx);
    let known = load_known(ctx, "C13");
    let mut out = Outcome::default();
    out.rule = "corpus of types with many dependencies, several imports per file and shared files; the SAME rendered source is compiled in K=3 (quick) / 6 (thorough) slot crates, i.e. by K independent rustc processes with independent hash seeds in the derive; each binary (i) calls name/ident/decl/decl_concrete/inline/inline_flattened/export_to_string/output_path of every type 12 times, (ii) exports all types under 6 / 24 generated schedules (generated order x {1,2,8,16} threads x delay tape at the yield points) into fresh directories. Oracle: all dumps identical between calls and between the K binaries; all export trees byte-identical between schedules and between binaries. Non-trivial: a module with user-type dependencies or a file with >=2 imports/declarations; distinct by module text".into();
    out.assumptions = vec!["the hash seed inside rustc cannot be controlled: an order leak through a set of n elements is missed with probability about (1/n!)^(K-1) per type".into(), "dependencies() (a Vec, not a string) is not compared: its order is hash-dependent today and sorted at the output boundary".into()];
    let k = if ctx.thorough() { 6 } else { 3 };
    let nbase = 37; // (j + 5*copy) % 16: the copies of one module land in different slots
    let rounds = if ctx.thorough() { 3 } else { 1 };
    let nsched = if ctx.thorough() { 24 } else { 6 };
    let mut distinct = HashSet::new();
    for round in 0..rounds {
        let base = gen_modules(ctx, &profile_many_deps(), nbase, 0xC13 + round as u64 * 7919);
        let mut all = vec![];
        for _copy in 0..k {
            all.extend(base.iter().cloned());
        }
        let corpus = build(ctx, all, &subjects::SlotCfg::default());
        out.bump("module_copies", corpus.modules.len() as u64);
        out.bump("discarded_by_rustc", corpus.discarded_by_rustc as u64);
        let seed = ctx.seed;
        let results = for_each_module(ctx, &corpus, |p, s, cwd| c13_module(p, s, cwd, seed, nsched));
        let mut by_name: BTreeMap<String, Vec<(usize, Value)>> = BTreeMap::new();
        for (i, r) in &results {
            if let Some(pl) = &r.payload {
                by_name.entry(corpus.modules[*i].module.name.clone()).or_default().push((corpus.modules[*i].slot, pl.clone()));
            }
        }
        for (i, r) in results {
            out.evaluations += r.evaluations;
            for l in r.labels {
                *out.labels.entry(l).or_default() += 1;
            }
            for h in r.nontrivial_hashes {
                if distinct.insert(h) {
                    out.distinct_nontrivial += 1;
                }
            }
            let _ = i;
            out.take_failures(&r.failures, &known);
        }
        for (name, copies) in &by_name {
            let slots: HashSet<usize> = copies.iter().map(|c| c.0).collect();
            out.bump("modules_compared_across_compilations", 1);
            out.bump("independent_compilations_compared", slots.len() as u64);
            for c in copies.iter().skip(1) {
                out.evaluations += 1;
                if c.1 != copies[0].1 {
                    let p = corpus.modules.iter().find(|m| &m.module.name == name).unwrap();
                    let what = if c.1["dumps"] != copies[0].1["dumps"] { "string dumps" } else { "export trees" };
                    let detail = if what == "string dumps" {
                        let (a, b) = (copies[0].1["dumps"].as_array().cloned().unwrap_or_default(), c.1["dumps"].as_array().cloned().unwrap_or_default());
                        a.iter().zip(b.iter()).find(|(x, y)| x != y).map(|(x, y)| format!("{x}\n  vs\n{y}")).unwrap_or_default()
                    } else {
                        let (a, b) = (&copies[0].1["tree"], &c.1["tree"]);
                        a.as_object().and_then(|o| o.iter().find(|(f, v)| b.get(f.as_str()) != Some(*v)).map(|(f, v)| format!("{f}:\n{v}\n  vs\n{}", b.get(f.as_str()).cloned().unwrap_or(Value::Null)))).unwrap_or_default()
                    };
                    out.take_failures(&[json!({"signature": format!("{}-differ-between-compilations", what.replace(' ', "-")), "message": format!("two independent compilations of the same source (slots {} and {}) produced different {what}: {detail}", copies[0].0, c.0), "case": case_of(p, json!({}))})], &known);
                    break;
                }
            }
            if out.samples.len() < 2 {
                if let Some(tree) = copies[0].1["tree"].as_object() {
                    if tree.len() >= 2 {
                        out.samples.push(json!({"compilations": copies.len(), "identical_tree": tree.iter().take(3).collect::<BTreeMap<_, _>>()}));
                    }
                }
            }
        }
        if !out.violations.is_empty() {
            break;
        }
    }
    finish(ctx, "C13", out)
}
