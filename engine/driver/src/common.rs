use std::{
    collections::BTreeMap,
    path::{Path, PathBuf},
    process::Command,
    time::Instant,
};

use serde_json::{json, Value};

pub struct Ctx {
    pub verif: PathBuf,
    pub repo: PathBuf,
    pub work: PathBuf,
    pub seed: u64,
    pub tier: String,
    pub start: Instant,
}

impl Ctx {
    pub fn new(tier: &str) -> Ctx {
        let verif = std::env::var("VERIF_DIR").map(PathBuf::from).unwrap_or_else(|_| {
            // engine/target/release/verif -> /verif
            let exe = std::env::current_exe().unwrap();
            exe.ancestors().nth(4).unwrap().to_path_buf()
        });
        let repo = PathBuf::from(std::env::var("VERIF_REPO").unwrap_or_else(|_| "/repo".into()));
        let work = verif.join("work");
        std::fs::create_dir_all(&work).unwrap();
        let seed = std::env::var("VERIF_SEED").ok().and_then(|s| s.parse().ok()).unwrap_or(1);
        Ctx { verif, repo, work, seed, tier: tier.to_string(), start: Instant::now() }
    }
    pub fn subjects(&self) -> PathBuf {
        self.verif.join("engine/subjects")
    }
    pub fn thorough(&self) -> bool {
        self.tier == "thorough"
    }
}

/// exit codes: 0 ok, 1 violation, 2 inconclusive
pub fn inconclusive(msg: &str) -> ! {
    println!("INCONCLUSIVE: {msg}");
    std::process::exit(2);
}

#[derive(Clone, Debug)]
pub struct Known {
    pub property: String,
    pub status: String,
    pub signature: String,
    pub what: String,
    pub replay: Option<String>,
}

pub fn load_known(ctx: &Ctx, property: &str) -> Vec<Known> {
    let p = ctx.verif.join("known_findings.json");
    let Ok(s) = std::fs::read_to_string(&p) else { return vec![] };
    let v: Value = serde_json::from_str(&s).unwrap_or_else(|e| inconclusive(&format!("known_findings.json unreadable: {e}")));
    v["findings"]
        .as_array()
        .map(|a| {
            a.iter()
                .filter(|f| f["property"] == property)
                .map(|f| Known {
                    property: property.to_string(),
                    status: f["status"].as_str().unwrap_or("known").to_string(),
                    signature: f["signature"].as_str().unwrap_or("").to_string(),
                    what: f["what"].as_str().unwrap_or("").to_string(),
                    replay: f["replay"].as_str().map(|s| s.to_string()),
                })
                .collect()
        })
        .unwrap_or_default()
}

/// Accumulated outcome of one check run.
#[derive(Default)]
pub struct Outcome {
    pub evaluations: u64,
    pub distinct_nontrivial: u64,
    pub rule: String,
    pub samples: Vec<Value>,
    pub labels: BTreeMap<String, u64>,
    pub extra: BTreeMap<String, Value>,
    pub assumptions: Vec<String>,
    /// failures not matched by a known finding: (signature, replay json)
    pub violations: Vec<(String, Value)>,
    /// known findings that reproduced: signature -> what
    pub known_reproduced: BTreeMap<String, String>,
    pub exhaustive: Option<bool>,
}

impl Outcome {
    pub fn add_labels(&mut self, v: &Value) {
        if let Some(o) = v.as_object() {
            for (k, n) in o {
                *self.labels.entry(k.clone()).or_default() += n.as_u64().unwrap_or(0);
            }
        }
    }
    pub fn bump(&mut self, key: &str, n: u64) {
        let cur = self.extra.get(key).and_then(|v| v.as_u64()).unwrap_or(0);
        self.extra.insert(key.to_string(), json!(cur + n));
    }
    /// classify failures against the known-findings list
    pub fn take_failures(&mut self, failures: &[Value], known: &[Known]) {
        for f in failures {
            let sig = f["signature"].as_str().unwrap_or("unclassified").to_string();
            if let Some(k) = known.iter().find(|k| k.status == "known" && k.signature == sig) {
                self.known_reproduced.insert(sig, k.what.clone());
            } else {
                self.violations.push((sig, f.clone()));
            }
        }
    }
}

pub fn finish(ctx: &Ctx, property: &str, mut out: Outcome) -> ! {
    let mut coverage = serde_json::Map::new();
    coverage.insert("evaluations".into(), json!(out.evaluations));
    coverage.insert("distinct_nontrivial".into(), json!(out.distinct_nontrivial));
    coverage.insert("rule".into(), json!(out.rule));
    if out.samples.is_empty() {
        out.samples.push(json!("(no sample recorded)"));
    }
    coverage.insert("samples".into(), json!(out.samples));
    coverage.insert("labels".into(), json!(out.labels));
    if let Some(e) = out.exhaustive {
        coverage.insert("exhaustive".into(), json!(e));
    }
    coverage.insert("known_findings_reproduced".into(), json!(out.known_reproduced.keys().collect::<Vec<_>>()));
    for (k, v) in &out.extra {
        coverage.insert(k.clone(), v.clone());
    }
    coverage.insert("repo".into(), json!(ctx.repo.to_string_lossy()));
    // replay files for violations
    let mut lines = vec![];
    for (i, (sig, f)) in out.violations.iter().enumerate().take(12) {
        let dir = ctx.work.join("found").join(property);
        std::fs::create_dir_all(&dir).ok();
        let h = fnv(&f.to_string());
        let path = dir.join(format!("{sig}-{h:016x}.json"));
        let mut replay = f.clone();
        if let Some(o) = replay.as_object_mut() {
            o.insert("property".into(), json!(property));
            o.insert("seed".into(), json!(ctx.seed));
        }
        std::fs::write(&path, serde_json::to_string_pretty(&replay).unwrap()).ok();
        if i < 5 {
            lines.push(format!("VIOLATION property={property} replay={}", path.display()));
            let msg = f["message"].as_str().unwrap_or("");
            eprintln!("  [{sig}] {}", msg.chars().take(600).collect::<String>());
        }
    }
    let evidence = json!({
        "property_id": property,
        "tier": ctx.tier,
        "seed": ctx.seed,
        "level": "exploration",
        "coverage": coverage,
        "assumptions": out.assumptions,
        "wall_s": ctx.start.elapsed().as_secs_f64(),
        "violations": out.violations.len(),
    });
    let evdir = ctx.verif.join("evidence");
    std::fs::create_dir_all(&evdir).ok();
    std::fs::write(evdir.join(format!("{property}.json")), serde_json::to_string_pretty(&evidence).unwrap()).unwrap();
    if let Some((sig, f)) = out.violations.iter().find(|(s, _)| s == "harness-abort" || s == "generator-unsound" || s == "bad-replay") {
        println!("INCONCLUSIVE: {sig}: {}", f["message"].as_str().unwrap_or(""));
        std::process::exit(2);
    }
    for (sig, what) in &out.known_reproduced {
        println!("KNOWN-FINDING: property={property} [{sig}] {what}");
    }
    if out.violations.is_empty() {
        println!(
            "OK property={property} tier={} seed={} evaluations={} distinct_nontrivial={} wall_s={:.1}",
            ctx.tier, ctx.seed, out.evaluations, out.distinct_nontrivial, ctx.start.elapsed().as_secs_f64()
        );
        std::process::exit(0);
    }
    for l in lines {
        println!("{l}");
    }
    std::process::exit(1);
}

pub fn fnv(s: &str) -> u64 {
    let mut h: u64 = 0xcbf29ce484222325;
    for b in s.as_bytes() {
        h ^= *b as u64;
        h = h.wrapping_mul(0x100000001b3);
    }
    h
}

pub fn write_if_changed(path: &Path, content: &str) {
    if std::fs::read_to_string(path).map(|c| c == content).unwrap_or(false) {
        return;
    }
    if let Some(p) = path.parent() {
        std::fs::create_dir_all(p).unwrap();
    }
    std::fs::write(path, content).unwrap();
}

/// run a command, capture output; (success, stdout, stderr)
pub fn run(cmd: &mut Command) -> (bool, String, String) {
    match cmd.output() {
        Ok(o) => (
            o.status.success(),
            String::from_utf8_lossy(&o.stdout).into_owned(),
            String::from_utf8_lossy(&o.stderr).into_owned(),
        ),
        Err(e) => (false, String::new(), format!("cannot run {:?}: {e}", cmd)),
    }
}

/// Exclusive lock for the shared subjects workspace (held for the life of the process).
pub fn lock_subjects(ctx: &Ctx) {
    use std::os::fd::AsRawFd;
    let path = ctx.verif.join("engine/.subjects.lock");
    let f = std::fs::OpenOptions::new().create(true).write(true).truncate(false).open(&path).unwrap();
    unsafe {
        libc::flock(f.as_raw_fd(), libc::LOCK_EX);
    }
    std::mem::forget(f);
}
