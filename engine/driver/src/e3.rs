//! E3: export histories, schedules and faults against a reference model (C06, C05 file level,
//! C17). One compiled "universe" (a generated module whose types share files and depend on each
//! other) per module; thousands of generated histories are interpreted through the slot server
//! and compared with the model after every step.
use std::collections::{BTreeMap, BTreeSet, HashSet};

use oracles::{combine, paths};
use serde_json::{json, Value};
use typegen::Profile;

use crate::{
    common::*,
    corpus::*,
    e2::{case_of, view, ModResult},
    e2x::{reachable_defs, snapshot, NOTE},
    subjects,
};

pub fn profile_universe() -> Profile {
    let mut p = Profile::base("universe");
    p.max_types = 6;
    p.export_to = 85;
    p.shared_files = 70;
    p.user_refs = 60;
    p.generics = 20;
    p.docs = 30;
    p.no_parent_escape = true;
    p.doc_merge_safe = false;
    p.blank_block_lines = true;
    p.recursion = 5;
    p.enums = 35;
    p.prefix_names = 25;
    p.twin_names = 25;
    p.cycles = 25;
    p
}

pub struct Uni {
    pub ninsts: usize,
    pub def_of_inst: Vec<usize>,
    pub reach_of_inst: Vec<BTreeSet<usize>>,
    pub path_of_def: Vec<String>,
    pub part_of_def: Vec<Option<combine::Standalone>>,
    pub labels: Vec<String>,
    /// number of files shared by >= 2 definitions
    pub shared_files: usize,
}

pub fn build_uni(p: &Placed, server: &mut Server, scratch: &std::path::Path) -> Result<Option<Uni>, String> {
    let v = view(p, server)?;
    // with the `format` feature the text that reaches a file is the formatted one: take each
    // definition's standalone text from a solo export into a scratch directory
    let formatted = crate::subjects::CURRENT_CFG.lock().unwrap().as_ref().map_or(false, |c| c.features.iter().any(|f| f == "format"));
    if !v.problems.is_empty() {
        return Ok(None);
    }
    let m = &p.module;
    let mut part_of_def: Vec<Option<combine::Standalone>> = vec![None; m.types.len()];
    let mut def_of_inst = vec![];
    let mut reach_of_inst = vec![];
    for (t, inst) in m.insts.iter().enumerate() {
        let typegen::TyExpr::User(i, _) = inst else { return Ok(None) };
        def_of_inst.push(*i);
        reach_of_inst.push(reachable_defs(p, &v, t).unwrap_or_default());
        if part_of_def[*i].is_none() {
            let solo_text = if formatted {
                let dir = scratch.join(format!("solo_{}_{t}", p.module.name));
                std::fs::remove_dir_all(&dir).ok();
                std::fs::create_dir_all(&dir).map_err(|e| e.to_string())?;
                server.request(&json!({"cmd": "reset"}))?;
                server.request(&json!({"cmd": "setenv", "cwd": scratch.to_string_lossy(), "export_dir": dir.to_string_lossy()}))?;
                let resp = server.request(&json!({"cmd": "export", "m": p.index, "t": t, "how": "export"}))?;
                let text = paths::normalize(&dir.to_string_lossy(), &m.types[*i].expected_path()).and_then(|c| std::fs::read_to_string(paths::join(&c)).ok());
                server.request(&json!({"cmd": "setenv", "cwd": scratch.to_string_lossy(), "export_dir": Value::Null}))?;
                server.request(&json!({"cmd": "reset"}))?;
                std::fs::remove_dir_all(&dir).ok();
                if resp["ok"] != true {
                    return Ok(None);
                }
                text
            } else {
                okstr(&v.infos[t], "export_to_string").map(|s| s.to_string())
            };
            if let Some(text) = solo_text.as_deref() {
                match combine::parse_standalone(text, NOTE) {
                    Ok(s) => part_of_def[*i] = Some(s),
                    // outside the reference combiner's domain (known findings of the merge)
                    Err(_) => return Ok(None),
                }
            }
        }
    }
    // every definition that can be reached must have a text
    for r in &reach_of_inst {
        for d in r {
            if part_of_def[*d].is_none() {
                return Ok(None);
            }
        }
    }
    let path_of_def: Vec<String> = m.types.iter().map(|td| td.expected_path()).collect();
    let mut by_path: BTreeMap<&String, usize> = BTreeMap::new();
    for (i, pth) in path_of_def.iter().enumerate() {
        if part_of_def[i].is_some() {
            *by_path.entry(pth).or_default() += 1;
        }
    }
    Ok(Some(Uni {
        ninsts: m.insts.len(),
        def_of_inst,
        reach_of_inst,
        shared_files: by_path.values().filter(|n| **n >= 2).count(),
        path_of_def,
        part_of_def,
        labels: m.labels(),
    }))
}

#[derive(Clone, Debug, PartialEq)]
pub enum OpKind {
    Export,
    ExportAll,
    /// directory index (0 = the TS_RS_EXPORT_DIR directory, 1 = another one), spelling index
    ExportAllTo(usize, usize),
}

#[derive(Clone, Debug, PartialEq)]
pub struct Op {
    pub kind: OpKind,
    pub t: usize,
}

#[derive(Clone, Debug, PartialEq)]
pub struct Fault {
    /// before which step
    pub at: usize,
    /// 0: target path is a directory, 1: a parent component is a regular file
    pub kind: usize,
    /// which of the step's target files (index into the sorted list)
    pub which: usize,
}

#[derive(Clone, Debug, PartialEq)]
pub struct History {
    /// 0 unset (./bindings), 1 relative, 2 absolute, 3 with dot segments
    pub env: usize,
    /// 0 empty, 1 stale junk at target paths, 2 tree of the same history run before (registry
    /// reset), 3 a previous run that exported only the first step's type
    pub initial: usize,
    pub ops: Vec<Op>,
    pub fault: Option<Fault>,
    /// the second directory is only ever named through a symbolic link to it
    pub via_link: bool,
}

impl History {
    pub fn to_json(&self, p: &Placed) -> Value {
        let env_s = ["unset (./bindings)", "relative", "absolute", "with dot segments"][self.env];
        let initial_s = ["empty", "stale files", "previous run", "previous run of the first step's type only"][self.initial];
        let fault_s = self.fault.as_ref().map(|f| {
            let kind = ["target is a directory", "parent component is a regular file"][f.kind];
            json!({"before_step": f.at, "kind": kind, "which_target": f.which})
        });
        json!({
            "env": env_s,
            "initial": initial_s,
            "ops": self.ops.iter().map(|o| format!("{}::{}", typegen::render::render_ty(&p.module.insts[o.t], &p.module), match &o.kind {
                OpKind::Export => "export()".to_string(),
                OpKind::ExportAll => "export_all()".to_string(),
                OpKind::ExportAllTo(d, s) => format!("export_all_to(dir{d}, spelling{s})"),
            })).collect::<Vec<_>>(),
            "fault": fault_s,
            "second_directory_through_symlink": self.via_link,
            "raw": {"env": self.env, "initial": self.initial, "via_link": self.via_link, "ops": self.ops.iter().map(|o| match &o.kind {
                OpKind::Export => json!([0, o.t]), OpKind::ExportAll => json!([1, o.t]), OpKind::ExportAllTo(d, s) => json!([2, o.t, d, s]) }).collect::<Vec<_>>(),
                "fault": self.fault.as_ref().map(|f| json!([f.at, f.kind, f.which]))},
        })
    }
    pub fn from_raw(v: &Value) -> Option<History> {
        let r = &v["raw"];
        let ops = r["ops"]
            .as_array()?
            .iter()
            .filter_map(|o| {
                let a = o.as_array()?;
                let t = a.get(1)?.as_u64()? as usize;
                Some(Op {
                    t,
                    kind: match a.first()?.as_u64()? {
                        0 => OpKind::Export,
                        1 => OpKind::ExportAll,
                        _ => OpKind::ExportAllTo(a.get(2)?.as_u64()? as usize, a.get(3)?.as_u64()? as usize),
                    },
                })
            })
            .collect();
        let fault = r["fault"].as_array().map(|a| Fault { at: a[0].as_u64().unwrap_or(0) as usize, kind: a[1].as_u64().unwrap_or(0) as usize, which: a[2].as_u64().unwrap_or(0) as usize });
        Some(History { env: r["env"].as_u64()? as usize, initial: r["initial"].as_u64()? as usize, ops, fault, via_link: r["via_link"].as_bool().unwrap_or(false) })
    }
}

pub fn gen_history(words: &[u32], uni: &Uni, with_fault: bool, max_len: usize) -> History {
    let mut t = typegen::Tape::new(words);
    let env = t.choose(4);
    let initial = t.weighted(&[45, 25, 15, 15]);
    let n = 1 + t.choose(max_len);
    let mut ops = vec![];
    for _ in 0..n {
        let inst = t.choose(uni.ninsts);
        let kind = match t.weighted(&[35, 30, 35]) {
            0 => OpKind::Export,
            1 => OpKind::ExportAll,
            _ => OpKind::ExportAllTo(t.weighted(&[65, 35]), t.choose(8)),
        };
        ops.push(Op { kind, t: inst });
    }
    let fault = if with_fault { Some(Fault { at: t.choose(ops.len()), kind: t.choose(2), which: t.choose(8) }) } else { None };
    let via_link = t.choose(5) == 0;
    History { env, initial, ops, fault, via_link }
}

struct Dirs {
    base: std::path::PathBuf,
    env_value: Option<String>,
    /// canonical absolute directories: [env dir, other dir]
    canon: [String; 2],
    /// spell the other directory through `<base>/lnkB -> outB`
    link: bool,
}

fn dirs_for(base: &std::path::Path, env: usize, link: bool) -> Dirs {
    let b = base.to_string_lossy();
    let (env_value, env_canon) = match env {
        0 => (None, format!("{b}/bindings")),
        1 => (Some("out_env".to_string()), format!("{b}/out_env")),
        2 => (Some(format!("{b}/abs_env")), format!("{b}/abs_env")),
        _ => (Some("./x/../dots_env/.".to_string()), format!("{b}/dots_env")),
    };
    Dirs { base: base.to_path_buf(), env_value, canon: [env_canon, format!("{b}/outB")], link }
}

fn spelling(d: &Dirs, dir: usize, s: usize) -> String {
    let linked = format!("{}/lnkB", d.base.to_string_lossy());
    let canon = if d.link && dir == 1 { &linked } else { &d.canon[dir] };
    let rel = canon.strip_prefix(&format!("{}/", d.base.to_string_lossy())).unwrap_or(canon).to_string();
    match s {
        0 => canon.clone(),
        1 => rel,
        2 => format!("./{rel}"),
        3 => format!("{rel}/"),
        4 => format!("{rel}/x/.."),
        5 => format!("sub/../{rel}"),
        6 => format!("{canon}/x/.."),
        _ => format!("{}/sub/../{rel}", d.base.to_string_lossy()),
    }
}

type State = BTreeMap<String, BTreeSet<usize>>;

fn expected_files(uni: &Uni, state: &State) -> BTreeMap<String, String> {
    let mut out = BTreeMap::new();
    for (dir, defs) in state {
        let mut by_file: BTreeMap<String, Vec<usize>> = BTreeMap::new();
        for d in defs {
            if let Some(c) = paths::normalize(dir, &uni.path_of_def[*d]) {
                by_file.entry(paths::join(&c)).or_default().push(*d);
            }
        }
        for (f, ds) in by_file {
            let parts: Vec<combine::Standalone> = ds.iter().filter_map(|d| uni.part_of_def[*d].clone()).collect();
            // a file holding one type is that type's standalone text; only a merge re-renders the
            // import lines (with the `format` feature the two differ in the order of the names)
            out.insert(f, if parts.len() == 1 { parts[0].text.clone() } else { combine::combine(NOTE, &parts) });
        }
    }
    out
}

fn apply_model(uni: &Uni, d: &Dirs, state: &mut State, op: &Op) {
    let (dir, defs): (String, BTreeSet<usize>) = match &op.kind {
        OpKind::Export => (d.canon[0].clone(), [uni.def_of_inst[op.t]].into_iter().collect()),
        OpKind::ExportAll => (d.canon[0].clone(), uni.reach_of_inst[op.t].clone()),
        OpKind::ExportAllTo(dir, _) => (d.canon[*dir].clone(), uni.reach_of_inst[op.t].clone()),
    };
    state.entry(dir).or_default().extend(defs);
}

fn target_files(uni: &Uni, d: &Dirs, op: &Op) -> Vec<String> {
    let mut st = State::new();
    apply_model(uni, d, &mut st, op);
    expected_files(uni, &st).into_keys().collect()
}

fn do_op(server: &mut Server, p: &Placed, d: &Dirs, op: &Op) -> Result<Value, String> {
    match &op.kind {
        OpKind::Export => server.request(&json!({"cmd": "export", "m": p.index, "t": op.t, "how": "export"})),
        OpKind::ExportAll => server.request(&json!({"cmd": "export", "m": p.index, "t": op.t, "how": "export_all"})),
        OpKind::ExportAllTo(dir, s) => server.request(&json!({"cmd": "export", "m": p.index, "t": op.t, "how": "export_all_to", "dir": spelling(d, *dir, *s)})),
    }
}

fn diff_trees(expected: &BTreeMap<String, String>, actual: &BTreeMap<String, String>, base: &str) -> Option<String> {
    let rel = |s: &String| s.strip_prefix(base).unwrap_or(s).to_string();
    for (k, v) in expected {
        match actual.get(k) {
            None => return Some(format!("file {} is missing; expected content:\n{v}", rel(k))),
            Some(a) if a != v => return Some(format!("file {} differs.\n--- expected ---\n{v}\n--- actual ---\n{a}", rel(k))),
            _ => (),
        }
    }
    for k in actual.keys() {
        if !expected.contains_key(k) {
            return Some(format!("unexpected file {}:\n{}", rel(k), actual[k]));
        }
    }
    None
}

/// Interpret one history. `Ok(None)`: the model was matched after every step.
pub fn run_history(server: &mut Server, p: &Placed, uni: &Uni, h: &History, base: &std::path::Path) -> Result<Option<(String, String)>, String> {
    let rounds = if h.initial == 2 { 2 } else { 1 };
    std::fs::remove_dir_all(base).ok();
    std::fs::create_dir_all(base).map_err(|e| e.to_string())?;
    let d = dirs_for(base, h.env, h.via_link);
    if h.via_link {
        std::fs::create_dir_all(base.join("outB")).map_err(|e| e.to_string())?;
        std::os::unix::fs::symlink("outB", base.join("lnkB")).map_err(|e| e.to_string())?;
    }
    server.request(&json!({"cmd": "setenv", "cwd": base.to_string_lossy(), "export_dir": d.env_value}))?;
    let base_s = base.to_string_lossy().into_owned();
    let mut carried: BTreeMap<String, String> = BTreeMap::new();
    for round in 0..rounds {
        server.request(&json!({"cmd": "reset"}))?;
        let last_round = round + 1 == rounds;
        // files present before the first step (stale content / previous run)
        let mut initial_files: BTreeMap<String, String> = carried.clone();
        if h.initial == 1 {
            let mut st = State::new();
            for op in h.ops.iter().take(2) {
                apply_model(uni, &d, &mut st, op);
            }
            for (i, f) in expected_files(uni, &st).keys().enumerate() {
                let junk = format!("{NOTE}\nexport type Stale{i} = {{ {} }};\n", "junk: string, ".repeat(300));
                if let Some(parent) = std::path::Path::new(f).parent() {
                    std::fs::create_dir_all(parent).ok();
                }
                std::fs::write(f, &junk).ok();
                initial_files.insert(f.clone(), junk);
            }
        }
        if h.initial == 3 {
            if let Some(op) = h.ops.first() {
                let mut st = State::new();
                apply_model(uni, &d, &mut st, &Op { kind: match &op.kind { OpKind::ExportAllTo(a, b) => OpKind::ExportAllTo(*a, *b), _ => OpKind::Export }, t: op.t });
                // only the root definition, as `export()` of a previous process would have left it
                let dir = st.keys().next().cloned().unwrap_or_default();
                let mut solo = State::new();
                solo.entry(dir).or_default().insert(uni.def_of_inst[op.t]);
                for (f, text) in expected_files(uni, &solo) {
                    if let Some(parent) = std::path::Path::new(&f).parent() {
                        std::fs::create_dir_all(parent).ok();
                    }
                    std::fs::write(&f, &text).ok();
                    initial_files.insert(f, text);
                }
            }
        }
        let mut state = State::new();
        for (k, op) in h.ops.iter().enumerate() {
            // fault injection (only in the last round)
            let fault_here = h.fault.as_ref().filter(|f| f.at == k && last_round);
            if let Some(f) = fault_here {
                // only files the call really has to write can make it fail: a file all of whose
                // declarations are already registered is not touched at all
                let all_targets = target_files(uni, &d, op);
                let mut after_state = state.clone();
                apply_model(uni, &d, &mut after_state, op);
                let before_files = expected_files(uni, &state);
                let after_files = expected_files(uni, &after_state);
                let targets: Vec<String> = all_targets.into_iter().filter(|t| before_files.get(t) != after_files.get(t)).collect();
                if !targets.is_empty() {
                    let target = std::path::PathBuf::from(&targets[f.which % targets.len()]);
                    let before = snapshot(base);
                    // build the obstacle, moving existing entries aside
                    let aside = base.join("__aside");
                    std::fs::remove_dir_all(&aside).ok();
                    let obstacle: std::path::PathBuf;
                    let mut moved: Option<std::path::PathBuf> = None;
                    if f.kind == 0 {
                        obstacle = target.clone();
                        if target.exists() {
                            std::fs::rename(&target, &aside).ok();
                            moved = Some(target.clone());
                        }
                        std::fs::create_dir_all(&obstacle).ok();
                    } else {
                        // first missing-or-directory component below the base becomes a regular file
                        let parent = target.parent().unwrap().to_path_buf();
                        if parent == *base || !parent.starts_with(base) {
                            // nothing to block (file directly in the base): use kind 0 instead
                            obstacle = target.clone();
                            if target.exists() {
                                std::fs::rename(&target, &aside).ok();
                                moved = Some(target.clone());
                            }
                            std::fs::create_dir_all(&obstacle).ok();
                        } else {
                            obstacle = parent.clone();
                            if parent.exists() {
                                std::fs::rename(&parent, &aside).ok();
                                moved = Some(parent.clone());
                            } else if let Some(pp) = parent.parent() {
                                std::fs::create_dir_all(pp).ok();
                            }
                            std::fs::write(&obstacle, "i am a regular file").ok();
                        }
                    }
                    let with_obstacle = snapshot(base);
                    let resp = do_op(server, p, &d, op)?;
                    let after_fail = snapshot(base);
                    let describe = format!("step {k} with obstacle at {}", obstacle.strip_prefix(base).unwrap_or(&obstacle).display());
                    if resp.get("panic").is_some() {
                        return Ok(Some(("fault-panic".into(), format!("{describe}: the call panicked instead of returning an error: {resp}"))));
                    }
                    if resp["ok"] == true {
                        return Ok(Some(("fault-swallowed".into(), format!("{describe}: the call returned Ok although a file of its target set could not be written"))));
                    }
                    // files outside the target set untouched; inside: unchanged or a combination of
                    // a subset of what the model allows
                    let mut allowed_state = state.clone();
                    apply_model(uni, &d, &mut allowed_state, op);
                    let allowed_defs = allowed_state;
                    let tset: BTreeSet<String> = targets.iter().cloned().collect();
                    for (path, content) in &after_fail {
                        if path.starts_with(&aside.to_string_lossy().to_string()) {
                            continue;
                        }
                        let prev = with_obstacle.get(path);
                        if prev == Some(content) {
                            continue;
                        }
                        if !tset.contains(path) {
                            return Ok(Some(("fault-touched-other-file".into(), format!("{describe}: the failed call changed {path}, which is not one of its targets"))));
                        }
                        // must be the combination of a subset of definitions mapped to this file
                        let mut ok = false;
                        let defs_here: Vec<usize> = allowed_defs
                            .iter()
                            .flat_map(|(dir, defs)| defs.iter().filter(move |dd| paths::normalize(dir, &uni.path_of_def[**dd]).map(|c| paths::join(&c)) == Some(path.clone())).cloned())
                            .collect();
                        let n = defs_here.len().min(10);
                        for mask in 1u32..(1 << n) {
                            let parts: Vec<combine::Standalone> = (0..n).filter(|i| mask & (1 << i) != 0).filter_map(|i| uni.part_of_def[defs_here[i]].clone()).collect();
                            if combine::combine(NOTE, &parts) == *content {
                                ok = true;
                                break;
                            }
                        }
                        if !ok {
                            return Ok(Some(("fault-torn-file".into(), format!("{describe}: after the failed call {path} is neither unchanged nor a well-formed combination of exported declarations:\n{content}"))));
                        }
                    }
                    for path in with_obstacle.keys() {
                        if !after_fail.contains_key(path) && !path.starts_with(&aside.to_string_lossy().to_string()) {
                            return Ok(Some(("fault-removed-file".into(), format!("{describe}: the failed call removed {path}"))));
                        }
                    }
                    let _ = before;
                    // remove the obstacle, restore what was moved aside (unless the failed call
                    // legitimately wrote the file meanwhile)
                    if obstacle.is_dir() {
                        std::fs::remove_dir_all(&obstacle).ok();
                    } else {
                        std::fs::remove_file(&obstacle).ok();
                    }
                    if let Some(orig) = moved {
                        if !orig.exists() {
                            std::fs::rename(&aside, &orig).ok();
                        }
                    }
                    std::fs::remove_dir_all(&aside).ok();
                    // fall through: the step is repeated below as the retry
                }
            }
            let resp = do_op(server, p, &d, op)?;
            if resp["ok"] != true {
                let what = if fault_here.is_some() { "retry after removing the obstacle" } else { "export" };
                return Ok(Some((if fault_here.is_some() { "retry-failed".into() } else { "export-failed".into() }, format!("step {k} ({what}) failed: {resp}"))));
            }
            apply_model(uni, &d, &mut state, op);
            let mut expected = initial_files.clone();
            expected.extend(expected_files(uni, &state));
            let actual = snapshot(base);
            if let Some(diff) = diff_trees(&expected, &actual, &base_s) {
                let sig = if fault_here.is_some() || h.fault.as_ref().map_or(false, |f| f.at < k) { "tree-differs-after-fault" } else { "tree-differs-from-model" };
                return Ok(Some((sig.into(), format!("after step {k} of round {round}: {diff}"))));
            }
            if last_round && k + 1 == h.ops.len() {
                carried = actual;
            }
        }
        if !last_round {
            carried = snapshot(base);
        }
    }
    Ok(None)
}

/// greedy history minimisation: drop steps while the same signature is produced
fn shrink_history(server: &mut Server, p: &Placed, uni: &Uni, h: &History, base: &std::path::Path, sig: &str) -> (History, String) {
    let mut best = h.clone();
    let mut msg = String::new();
    let mut changed = true;
    while changed {
        changed = false;
        for i in 0..best.ops.len() {
            if best.ops.len() <= 1 {
                break;
            }
            let mut c = best.clone();
            c.ops.remove(i);
            if let Some(f) = &mut c.fault {
                if f.at > i {
                    f.at -= 1;
                }
                if f.at >= c.ops.len() {
                    continue;
                }
            }
            if let Ok(Some((s, m))) = run_history(server, p, uni, &c, base) {
                if s == sig {
                    best = c;
                    msg = m;
                    changed = true;
                    break;
                }
            }
        }
        if !changed && best.initial != 0 {
            let mut c = best.clone();
            c.initial = 0;
            if let Ok(Some((s, m))) = run_history(server, p, uni, &c, base) {
                if s == sig {
                    best = c;
                    msg = m;
                    changed = true;
                }
            }
        }
    }
    (best, msg)
}

pub fn histories_module(p: &Placed, server: &mut Server, cwd: &std::path::Path, seed: u64, n: usize, with_fault: bool, replay: Option<&History>) -> ModResult {
    let mut r = ModResult::default();
    let uni = match build_uni(p, server, cwd) {
        Ok(Some(u)) => u,
        Ok(None) => {
            r.extra.push(("universes_outside_combiner_domain".into(), 1));
            return r;
        }
        Err(e) => {
            r.failures.push(json!({"signature": format!("server-{e}"), "message": format!("building the universe: server {e}"), "case": case_of(p, json!({}))}));
            return r;
        }
    };
    r.labels = uni.labels.clone();
    let base = cwd.join(format!("hist_{}", p.module.name));
    let tapes = crate::corpus::tapes(seed ^ fnv(&p.module.name) ^ if with_fault { 0xC17 } else { 0xC06 }, n, 80);
    let histories: Vec<History> = match replay {
        Some(h) => vec![h.clone()],
        None => tapes.iter().map(|t| gen_history(t, &uni, with_fault, 8)).collect(),
    };
    for h in &histories {
        r.evaluations += 1;
        let kinds: BTreeSet<u8> = h.ops.iter().map(|o| match o.kind { OpKind::Export => 0, OpKind::ExportAll => 1, OpKind::ExportAllTo(..) => 2 }).collect();
        let spellings: BTreeSet<usize> = h.ops.iter().filter_map(|o| match o.kind { OpKind::ExportAllTo(_, s) => Some(s), _ => None }).collect();
        if (kinds.len() >= 2 || spellings.len() >= 2) && uni.shared_files >= 1 {
            r.nontrivial_hashes.push(fnv(&format!("{}/{:?}", p.module.name, h)));
        }
        match run_history(server, p, &uni, h, &base) {
            Err(e) => {
                r.failures.push(json!({"signature": format!("server-{e}"), "message": format!("history {:?}: server {e} (crash/hang inside an export call)", h.to_json(p)), "case": case_of(p, json!({"history": h.to_json(p)}))}));
                break;
            }
            Ok(None) => {
                if r.sample.is_none() && h.ops.len() >= 3 && kinds.len() >= 2 {
                    r.sample = Some(json!({"universe_files": uni.path_of_def, "history": h.to_json(p)}));
                }
            }
            Ok(Some((sig, msg))) => {
                let (small, small_msg) = shrink_history(server, p, &uni, h, &base, &sig);
                let msg = if small_msg.is_empty() { msg } else { small_msg };
                r.failures.push(json!({"signature": sig, "message": format!("history {}: {msg}", small.to_json(p)), "case": case_of(p, json!({"history": small.to_json(p)}))}));
                break;
            }
        }
    }
    std::fs::remove_dir_all(&base).ok();
    // leave the server in its own cwd again
    let _ = server.request(&json!({"cmd": "setenv", "cwd": cwd.to_string_lossy(), "export_dir": Value::Null}));
    r.extra.push(("universes".into(), 1));
    r.extra.push(("universes_with_shared_files".into(), (uni.shared_files >= 1) as u64));
    r
}

/// C05 at file level: permutations / prefixes / re-exports / thread schedules into one directory
pub fn merge_module(p: &Placed, server: &mut Server, cwd: &std::path::Path, seed: u64, nperm: usize, nsched: usize) -> ModResult {
    let mut r = ModResult::default();
    let uni = match build_uni(p, server, cwd) {
        Ok(Some(u)) => u,
        Ok(None) => {
            r.extra.push(("universes_outside_combiner_domain".into(), 1));
            return r;
        }
        Err(e) => {
            r.failures.push(json!({"signature": format!("server-{e}"), "message": format!("building the universe: server {e}"), "case": case_of(p, json!({}))}));
            return r;
        }
    };
    r.labels = uni.labels.clone();
    if uni.shared_files == 0 {
        r.extra.push(("universes_without_shared_file".into(), 1));
        return r;
    }
    let base = cwd.join(format!("merge_{}", p.module.name));
    let tapes = crate::corpus::tapes(seed ^ fnv(&p.module.name) ^ 0xC05, nperm + nsched, 64);
    // sequential permutations with prefixes and re-exports
    for tape in tapes.iter().take(nperm) {
        let mut t = typegen::Tape::new(tape);
        let mut order: Vec<usize> = (0..uni.ninsts).collect();
        for i in (1..order.len()).rev() {
            order.swap(i, t.choose(i + 1));
        }
        // (a third of the orders: into the second directory, named through a symbolic link)
        let via_link = t.choose(3) == 0;
        let mut ops: Vec<Op> = order.iter().map(|i| Op { kind: if via_link { OpKind::ExportAllTo(1, t.choose(8)) } else { OpKind::Export }, t: *i }).collect();
        // re-export two of them at the end (idempotence)
        ops.push(Op { kind: if via_link { OpKind::ExportAllTo(1, 0) } else { OpKind::Export }, t: order[0] });
        ops.push(Op { kind: if via_link { OpKind::ExportAllTo(1, 3) } else { OpKind::ExportAll }, t: order[order.len() / 2] });
        let h = History { env: 2, initial: 0, ops, fault: None, via_link };
        r.evaluations += 1;
        if uni.ninsts >= 3 {
            r.nontrivial_hashes.push(fnv(&format!("{}/{:?}", p.module.name, order)));
        }
        match run_history(server, p, &uni, &h, &base) {
            Err(e) => {
                r.failures.push(json!({"signature": format!("server-{e}"), "message": format!("server {e}"), "case": case_of(p, json!({"history": h.to_json(p)}))}));
                break;
            }
            Ok(Some((sig, msg))) => {
                let (small, small_msg) = shrink_history(server, p, &uni, &h, &base, &sig);
                let msg = if small_msg.is_empty() { msg } else { small_msg };
                r.failures.push(json!({"signature": format!("file-{sig}"), "message": format!("export order {}: {msg}", small.to_json(p)), "case": case_of(p, json!({"history": small.to_json(p)}))}));
                break;
            }
            Ok(None) => {
                if r.sample.is_none() {
                    r.sample = Some(json!({"shared_file_universe": uni.path_of_def, "order": h.to_json(p)["ops"]}));
                }
            }
        }
    }
    // concurrent schedules
    if r.failures.is_empty() {
        for tape in tapes.iter().skip(nperm).take(nsched) {
            let mut t = typegen::Tape::new(tape);
            let nthreads = *t.pick(&[2usize, 3, 4, 8]);
            let mut jobs: Vec<Vec<Value>> = vec![vec![]; nthreads];
            let mut order: Vec<usize> = (0..uni.ninsts).collect();
            for i in (1..order.len()).rev() {
                order.swap(i, t.choose(i + 1));
            }
            let d = dirs_for(&base, 2, false);
            std::fs::remove_dir_all(&base).ok();
            std::fs::create_dir_all(&base).ok();
            let _ = server.request(&json!({"cmd": "setenv", "cwd": base.to_string_lossy(), "export_dir": d.env_value}));
            let _ = server.request(&json!({"cmd": "reset"}));
            let mut state = State::new();
            for (i, inst) in order.iter().enumerate() {
                // every type twice, from different threads
                let how = if t.pct(50) { "export" } else { "export_all" };
                jobs[i % nthreads].push(json!({"m": p.index, "t": inst, "how": how}));
                jobs[(i + 1) % nthreads].push(json!({"m": p.index, "t": inst, "how": "export"}));
                apply_model(&uni, &d, &mut state, &Op { kind: if how == "export" { OpKind::Export } else { OpKind::ExportAll }, t: *inst });
            }
            let delays: Vec<u32> = (0..32).map(|_| *t.pick(&[0u32, 0, 1, 1, 20, 80, 200, 300])).collect();
            r.evaluations += 1;
            r.extra.push(("schedules".into(), 1));
            r.nontrivial_hashes.push(fnv(&format!("{}/sched/{:?}/{:?}", p.module.name, order, delays)));
            match server.request(&json!({"cmd": "par_export", "jobs": jobs, "delays": delays})) {
                Err(e) => {
                    r.failures.push(json!({"signature": format!("server-{e}"), "message": format!("concurrent export: server {e}"), "case": case_of(p, json!({"jobs": jobs}))}));
                    break;
                }
                Ok(resp) => {
                    let all_ok = resp.as_array().map_or(false, |a| a.iter().all(|j| j.as_array().map_or(false, |x| x.iter().all(|y| y["ok"] == true))));
                    let expected = expected_files(&uni, &state);
                    let actual = snapshot(&base);
                    let problem = if !all_ok { Some(format!("a concurrent export failed: {resp}")) } else { diff_trees(&expected, &actual, &base.to_string_lossy()) };
                    if let Some(msg) = problem {
                        r.failures.push(json!({"signature": "schedule-tree-differs", "message": format!("{nthreads} threads, jobs {jobs:?}, delays {delays:?}: {msg}"), "case": case_of(p, json!({"jobs": jobs, "delays": delays}))}));
                        break;
                    }
                }
            }
        }
    }
    std::fs::remove_dir_all(&base).ok();
    let _ = server.request(&json!({"cmd": "setenv", "cwd": cwd.to_string_lossy(), "export_dir": Value::Null}));
    r.extra.push(("universes".into(), 1));
    r
}

fn collect(out: &mut Outcome, results: Vec<(usize, ModResult)>, known: &[Known], distinct: &mut HashSet<u64>) {
    for (_, r) in results {
        out.evaluations += r.evaluations;
        for l in r.labels {
            *out.labels.entry(l).or_default() += 1;
        }
        for h in r.nontrivial_hashes {
            if distinct.insert(h) {
                out.distinct_nontrivial += 1;
            }
        }
        for (k, n) in r.extra {
            out.bump(&k, n);
        }
        if let Some(s) = r.sample {
            if out.samples.len() < 4 {
                out.samples.push(s);
            }
        }
        out.take_failures(&r.failures, known);
    }
}

pub fn module_check(property: &str, p: &Placed, server: &mut Server, cwd: &std::path::Path, ctx: &Ctx, replay: Option<&History>) -> ModResult {
    let th = ctx.thorough();
    match property {
        "C06" => histories_module(p, server, cwd, ctx.seed, if th { 400 } else { 60 }, false, replay),
        "C17" => histories_module(p, server, cwd, ctx.seed, if th { 400 } else { 60 }, true, replay),
        "C05" => merge_module(p, server, cwd, ctx.seed, if th { 60 } else { 12 }, if th { 60 } else { 8 }),
        _ => inconclusive("no history check for this property"),
    }
}

pub fn run_property(ctx: &Ctx, property: &'static str, out: &mut Outcome, known: &[Known]) {
    let rounds = if ctx.thorough() { 3 } else { 1 };
    let per_round = 16 * 6;
    let mut distinct = HashSet::new();
    for round in 0..rounds {
        let modules = gen_modules(ctx, &profile_universe(), per_round, fnv(property) % 10_000 + 31 + round as u64 * 7919);
        let corpus = build(ctx, modules, &subjects::SlotCfg::default());
        out.bump("discarded_by_rustc", corpus.discarded_by_rustc as u64);
        let results = for_each_module(ctx, &corpus, |p, s, cwd| module_check(property, p, s, cwd, ctx, None));
        collect(out, results, known, &mut distinct);
        if !out.violations.is_empty() {
            break;
        }
        // the same with the `format` feature: what is merged is dprint's output
        if property != "C17" {
            let n = if ctx.thorough() { 16 * 4 } else { 16 * 2 };
            let mut profile = profile_universe();
            profile.long_names = 75;
            profile.user_refs = 85;
            let modules = gen_modules(ctx, &profile, n, fnv(property) % 10_000 + 77 + round as u64 * 7919);
            let cfg = subjects::SlotCfg { features: vec!["format".into(), "no-serde-warnings".into()], ..Default::default() };
            let corpus = build(ctx, modules, &cfg);
            out.bump("universes_built_with_format_feature", corpus.modules.len() as u64);
            let results = for_each_module(ctx, &corpus, |p, s, cwd| module_check(property, p, s, cwd, ctx, None));
            collect(out, results, known, &mut distinct);
            if !out.violations.is_empty() {
                break;
            }
        }
    }
}

pub fn c06(ctx: &Ctx) -> ! {
    lock_subjects(ctx);
    let known = load_known(ctx, "C06");
    let mut out = Outcome::default();
    out.rule = "universes = generated modules whose types share files and depend on each other (compiled once); per universe 60 (quick) / 400 (thorough) proptest-generated histories of 1-8 calls over {export(T), export_all(T), export_all_to(T, dir)} x TS_RS_EXPORT_DIR in {unset, relative, absolute, with dot segments} x 6 spellings of 2 directories (one of them the TS_RS_EXPORT_DIR directory itself) x initial state {empty, stale files at the targets, tree of a previous run of the same history}; registry reset per history. Model: per canonical directory the set of exported definitions (export adds T, export_all* adds T and everything reachable through the swc-parsed declarations); expected tree = reference combiner per file; compared after EVERY step. Non-trivial: history mixes >=2 entry points or >=2 spellings in a universe with a shared file; distinct by (universe, history)".into();
    out.assumptions = vec!["placements never leave the base directory (`..`), so import specifiers do not depend on the base".into(), "declarations in the domain of the reference combiner only (the listed C05 findings are excluded by construction)".into()];
    regression_histories(ctx, "C06", &known, &mut out);
    run_property(ctx, "C06", &mut out, &known);
    finish(ctx, "C06", out)
}

pub fn c17(ctx: &Ctx) -> ! {
    lock_subjects(ctx);
    let known = load_known(ctx, "C17");
    let mut out = Outcome::default();
    out.rule = "C06's histories with one obstacle injected before a generated step (the target file path is a directory / a parent component is a regular file; existing entries are moved aside and restored), the failed step repeated after removing the obstacle, the history continued; plus non-exportable roots (i32, Vec<T>, Option<T>, tuples) and a type whose export_to climbs above the file system root. Oracle: the faulted call returns Err (not panic, not Ok); files outside its target set are byte-identical, files inside are unchanged or a reference combination of a subset of the declarations; after the retry and after every later step the tree equals the fault-free model. Non-trivial: as C06".into();
    out.assumptions = vec!["faults are file-system obstacles; I/O errors in the middle of a write are not injectable without replacing std::fs".into()];
    regression_histories(ctx, "C17", &known, &mut out);
    nonexportable(ctx, &mut out, &known);
    run_property(ctx, "C17", &mut out, &known);
    finish(ctx, "C17", out)
}

/// the file-level half of C05
pub fn c05_files(ctx: &Ctx, out: &mut Outcome, known: &[Known]) {
    run_property(ctx, "C05", out, known);
}

/// non-exportable roots and paths above the root must be reported as errors
fn nonexportable(ctx: &Ctx, out: &mut Outcome, known: &[Known]) {
    let mut m = typegen::gen_module(&[7, 7, 7], &profile_universe(), "m000");
    m.types.truncate(1);
    m.insts = vec![typegen::TyExpr::User(0, vec![])];
    m.types[0].params.clear();
    m.types[0].body = typegen::Body::Named(vec![typegen::Field { ident: Some("a".into()), ..Default::default() }]);
    m.types[0].attrs = typegen::ContainerAttrs { export_to: Some(format!("{}escaped.ts", "../".repeat(40))), ..Default::default() };
    // a type with an ordinary path of its own that depends on the escaped one: its import of the
    // dependency cannot be spelled, so the export has to fail as a whole (nothing written)
    let mut outer = m.types[0].clone();
    outer.ident = format!("{}Outer", outer.ident.trim_start_matches("r#"));
    outer.attrs = Default::default();
    outer.docs = None;
    outer.body = typegen::Body::Named(vec![
        typegen::Field { ident: Some("inner".into()), ty: typegen::TyExpr::Vec(Box::new(typegen::TyExpr::User(0, vec![]))), ..Default::default() },
        typegen::Field { ident: Some("b".into()), ..Default::default() },
    ]);
    m.types.push(outer.clone());
    m.insts.push(typegen::TyExpr::User(1, vec![]));
    // .. and one more step away: Root -> Outer -> escaped (the root's own imports are fine, a
    // dependency of it cannot be exported)
    let mut root = outer;
    root.ident = format!("{}Root", root.ident.trim_end_matches("Outer"));
    root.body = typegen::Body::Named(vec![
        typegen::Field { ident: Some("mid".into()), ty: typegen::TyExpr::Option(Box::new(typegen::TyExpr::User(1, vec![]))), ..Default::default() },
        typegen::Field { ident: Some("c".into()), ..Default::default() },
    ]);
    m.types.push(root.clone());
    m.insts.push(typegen::TyExpr::User(2, vec![]));
    // an ordinary type, exported after all the failures: they must not have left anything behind
    // (in the process, in the thread) that shows up in a later export
    let mut plain = root;
    plain.ident = format!("{}Plain", plain.ident.trim_end_matches("Root"));
    plain.body = typegen::Body::Named(vec![typegen::Field { ident: Some("d".into()), ..Default::default() }]);
    m.types.push(plain);
    m.insts.push(typegen::TyExpr::User(3, vec![]));
    let id = m.types[0].ident.clone();
    m.extra_roots = vec!["i32".into(), "String".into(), format!("Vec<{id}>"), format!("Option<{id}>"), format!("({id}, {id})"), format!("std::collections::HashMap<String, {id}>"), "()".into()];
    let n_insts = m.insts.len();
    let n_extra = m.extra_roots.len();
    let corpus = build(ctx, vec![m], &subjects::SlotCfg::default());
    let results = for_each_module(ctx, &corpus, |p, s, cwd| {
        let mut r = ModResult::default();
        let dir = cwd.join("nonexp");
        std::fs::create_dir_all(&dir).ok();
        for t in 0..(n_insts + n_extra) {
            for how in ["export", "export_all", "export_all_to"] {
                // (exporting the far root alone is fine: its own import can be spelled)
                if (t == 2 && how == "export") || t == 3 {
                    continue;
                }
                r.evaluations += 1;
                let before = snapshot(cwd);
                let resp = s.request(&json!({"cmd": "export", "m": p.index, "t": t, "how": how, "dir": dir.to_string_lossy()}));
                let label = if t == 0 { "type whose export_to climbs above the root".to_string() } else if t == 2 { "type two references away from a type whose export_to climbs above the root".to_string() } else if t < n_insts { "type that depends on a type whose export_to climbs above the root".to_string() } else { p.module.extra_roots[t - n_insts].clone() };
                match resp {
                    Err(e) => r.failures.push(json!({"signature": format!("server-{e}"), "message": format!("{how} of {label}: server {e}"), "case": case_of(p, json!({}))})),
                    Ok(v) if v.get("err").is_some() => {
                        // (the far root's own file may have been written before its dependency failed:
                        // it is a target of the call, not "another file")
                        let after = snapshot(cwd);
                        let own = format!("/{}.ts", p.module.types.get(2).map(|td| td.ts_name()).unwrap_or_default());
                        let touched_other = after.iter().any(|(k, v)| before.get(k) != Some(v) && !(t == 2 && k.ends_with(&own))) || before.keys().any(|k| !after.contains_key(k));
                        if t == 2 {
                            for k in after.keys().filter(|k| k.ends_with(&own)) {
                                std::fs::remove_file(k).ok();
                            }
                            let _ = s.request(&json!({"cmd": "reset"}));
                        }
                        if touched_other {
                            r.failures.push(json!({"signature": "failed-export-wrote-files", "message": format!("{how} of {label} failed but changed files"), "case": case_of(p, json!({}))}));
                        }
                    }
                    Ok(v) => r.failures.push(json!({"signature": if v.get("panic").is_some() { "nonexportable-panic" } else { "nonexportable-ok" }, "message": format!("{how}() of {label} must return an error, got {v}"), "case": case_of(p, json!({"root": label, "how": how}))})),
                }
            }
        }
        // after all these failures: an ordinary export, compared with the type's standalone text
        r.evaluations += 1;
        let plain_name = p.module.types[3].ts_name();
        let resp = s.request(&json!({"cmd": "export", "m": p.index, "t": 3, "how": "export_all_to", "dir": dir.to_string_lossy()}));
        let info = s.request(&json!({"cmd": "info", "m": p.index, "t": 3}));
        let written = std::fs::read_to_string(dir.join(format!("{plain_name}.ts"))).ok();
        match (resp, info) {
            (Ok(v), Ok(info)) if v["ok"] == true => {
                if written.as_deref() != okstr(&info, "export_to_string") {
                    r.failures.push(json!({"signature": "export-after-failures-differs", "message": format!("after the failed exports, exporting `{plain_name}` wrote\n{}\ninstead of its standalone text\n{}", written.unwrap_or_default(), okstr(&info, "export_to_string").unwrap_or("")), "case": case_of(p, json!({}))}));
                }
            }
            (resp, _) => r.failures.push(json!({"signature": "export-after-failures-failed", "message": format!("after the failed exports, exporting `{plain_name}` did not succeed: {resp:?}"), "case": case_of(p, json!({}))})),
        }
        r
    });
    let mut distinct = HashSet::new();
    collect(out, results, known, &mut distinct);
}

/// replay files of history checks: {"case": {"module": .., "history": {"raw": ..}}}
pub fn regression_histories(ctx: &Ctx, property: &str, known: &[Known], out: &mut Outcome) {
    let mut files: Vec<(std::path::PathBuf, Option<Known>)> = vec![];
    for k in known {
        if let Some(r) = &k.replay {
            files.push((ctx.verif.join(r), Some(k.clone())));
        }
    }
    if let Ok(rd) = std::fs::read_dir(ctx.verif.join("replays").join(property)) {
        for e in rd.flatten() {
            if e.file_name().to_string_lossy().starts_with("keep-") {
                files.push((e.path(), None));
            }
        }
    }
    for (f, k) in files {
        let Ok(text) = std::fs::read_to_string(&f) else { continue };
        let Ok(case) = serde_json::from_str::<Value>(&text) else { continue };
        let fails = replay_history(ctx, property, &case);
        out.bump("replays_run", 1);
        match k {
            Some(k) if k.status == "known" => {
                for fl in &fails {
                    if fl["signature"].as_str() == Some(k.signature.as_str()) {
                        out.known_reproduced.insert(k.signature.clone(), k.what.clone());
                    } else {
                        out.violations.push((format!("regression-{}", fl["signature"].as_str().unwrap_or("x")), fl.clone()));
                    }
                }
            }
            _ => {
                for fl in fails {
                    out.violations.push((format!("regression-{}", fl["signature"].as_str().unwrap_or("x")), fl));
                }
            }
        }
    }
}

pub fn replay_history(ctx: &Ctx, property: &str, case: &Value) -> Vec<Value> {
    let inner = if case["case"].is_object() { &case["case"] } else { case };
    let Ok(module) = serde_json::from_value::<typegen::Module>(inner["module"].clone()) else { return vec![] };
    let hist = History::from_raw(&inner["history"]);
    let cfg = subjects::SlotCfg::from_json(&inner["slot_cfg"]).unwrap_or_default();
    let corpus = build(ctx, vec![module], &cfg);
    let results = for_each_module(ctx, &corpus, |p, s, cwd| module_check(property, p, s, cwd, ctx, hist.as_ref()));
    results.into_iter().flat_map(|(_, r)| r.failures).collect()
}

pub fn replay_cmd(ctx: &Ctx, property: &str, file: &str) -> ! {
    lock_subjects(ctx);
    let text = std::fs::read_to_string(file).unwrap_or_else(|e| inconclusive(&format!("cannot read {file}: {e}")));
    let case: Value = serde_json::from_str(&text).unwrap_or_else(|e| inconclusive(&format!("bad replay: {e}")));
    let fails = replay_history(ctx, property, &case);
    if fails.is_empty() {
        println!("REPLAY-PASS property={property} file={file}");
        std::process::exit(0);
    }
    println!("{}", fails[0]["message"].as_str().unwrap_or(""));
    println!("VIOLATION property={property} replay={file}");
    std::process::exit(1);
}
