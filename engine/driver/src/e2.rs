//! E2 checks on value level: C01 (serialised values inhabit the type) and C02 (inhabitants
//! deserialise).
use std::collections::{BTreeSet, HashSet};

use serde_json::{json, Value};
use tsmodel::{Env, Ty};
use typegen::{render, Profile};

use crate::{common::*, corpus::*, subjects};

pub struct View {
    pub infos: Vec<Value>,
    pub env: Env,
    /// parsed `name()` of every registered type
    pub tys: Vec<Option<Ty>>,
    pub problems: Vec<Value>,
}

/// Build the declaration environment of a module from `decl()` of every registered type.
pub fn view(p: &Placed, server: &mut Server) -> Result<View, String> {
    let infos = module_infos(p, server)?;
    let mut env = Env::new();
    let mut problems = vec![];
    let mut tys = vec![];
    for (t, info) in infos.iter().enumerate() {
        let label = render::render_ty(&p.module.insts[t], &p.module);
        match okstr(info, "decl") {
            Some(decl) => match tsmodel::parse_module(decl) {
                Ok(m) if m.decls.len() == 1 => {
                    let d = m.decls.into_iter().next().unwrap();
                    env.insert(d.name.clone(), d);
                }
                Ok(_) => problems.push(json!({"type": label, "what": "decl() is not a single type alias", "decl": decl})),
                Err(e) => problems.push(json!({"type": label, "what": format!("decl() does not parse: {e}"), "decl": decl})),
            },
            None => {
                let msg = info["decl"]["panic"].as_str().unwrap_or("");
                problems.push(json!({"type": label, "what": "decl() panicked", "info": info["decl"], "unsupported": unsupported_panic(msg)}))
            }
        }
        tys.push(match okstr(info, "name") {
            Some(n) => match tsmodel::parse_type(n) {
                Ok(t) => Some(t),
                Err(e) => {
                    problems.push(json!({"type": label, "what": format!("name() does not parse: {e}"), "name": n}));
                    None
                }
            },
            None => None,
        });
    }
    // declarations of named types that come with the library (`JsonValue`): from the dependencies
    for info in &infos {
        for d in info["dependency_decls"].as_array().into_iter().flatten() {
            if let Some(decl) = okstr(d, "decl") {
                if let Ok(m) = tsmodel::parse_module(decl) {
                    for dd in m.decls {
                        if !env.contains_key(&dd.name) {
                            env.insert(dd.name.clone(), dd);
                        }
                    }
                }
            }
        }
    }
    Ok(View { infos, env, tys, problems })
}

fn module_source(p: &Placed) -> String {
    render::render_module(&p.module)
}

/// replayable description of a failing case: the module (AST + rendered source) plus details
pub fn case_of(p: &Placed, extra: Value) -> Value {
    let mut c = json!({"kind": "module", "module": serde_json::to_value(&p.module).unwrap_or(Value::Null), "source": module_source(p)});
    if let Some(cfg) = subjects::CURRENT_CFG.lock().unwrap().as_ref() {
        c["slot_cfg"] = cfg.to_json();
    }
    if let (Some(o), Some(e)) = (c.as_object_mut(), extra.as_object()) {
        for (k, v) in e {
            o.insert(k.clone(), v.clone());
        }
    }
    c
}

/// ts-rs signals shapes it does not support by panicking with these messages (documented on the
/// TS trait: "This function will panic if the type cannot be inlined/flattened/declared")
pub fn unsupported_panic(msg: &str) -> bool {
    msg.contains("cannot be inlined") || msg.contains("cannot be flattened") || msg.contains("cannot be declared")
}

fn known_signature_c01(p: &Placed, t: usize, v: &Value) -> String {
    let _ = v;
    if let typegen::TyExpr::User(i, _) = &p.module.insts[t] {
        if let typegen::Body::Newtype(f) = &p.module.types[*i].body {
            if f.skip {
                return "newtype-struct-with-skipped-field".into();
            }
        }
    }
    // a flattened enum with an `untagged` variant that serde writes as nothing (`Option::None`, a
    // unit variant): never generated (the flatten rules exclude it), here for the replay file
    for td in &p.module.types {
        for f in td.all_fields() {
            if !f.flatten {
                continue;
            }
            if let Some(i) = typegen::flatten_target(&f.ty) {
                if let typegen::Body::Enum(vs) = &p.module.types[i].body {
                    let nothing = vs.iter().any(|var| {
                        (var.untagged || p.module.types[i].attrs.untagged)
                            && match &var.body {
                                typegen::VBody::Unit => true,
                                typegen::VBody::Newtype(nf) => matches!(nf.ty, typegen::TyExpr::Option(_)),
                                _ => false,
                            }
                    });
                    if nothing {
                        return "flattened-enum-variant-written-as-nothing".into();
                    }
                }
            }
        }
    }
    // (only generated under `known_internal_unit_by_name`)
    for td in &p.module.types {
        if let typegen::Body::Enum(vs) = &td.body {
            if td.attrs.repr() == typegen::Repr::Internal {
                for var in vs {
                    if let typegen::VBody::Newtype(f) = &var.body {
                        if let typegen::TyExpr::User(u, _) = &f.ty {
                            if matches!(p.module.types[*u].body, typegen::Body::Unit) && !f.inline && !f.skip && !var.untagged && var.as_type.is_none() {
                                return "internally-tagged-variant-holding-unit-struct-by-name".into();
                            }
                        }
                    }
                }
            }
        }
    }
    "value-not-in-type".into()
}

#[derive(Default)]
pub struct ModResult {
    pub evaluations: u64,
    pub vacuous: u64,
    pub failures: Vec<Value>,
    pub labels: Vec<String>,
    pub sample: Option<Value>,
    pub nontrivial_hashes: Vec<u64>,
    pub extra: Vec<(String, u64)>,
    /// data handed back to the driver for cross-module comparisons (twins)
    pub payload: Option<Value>,
}

pub fn c01_module(p: &Placed, server: &mut Server, nvalues: usize, seed: u64) -> ModResult {
    let mut r = ModResult::default();
    r.labels = p.module.labels();
    let v = match view(p, server) {
        Ok(v) => v,
        Err(e) => {
            r.failures.push(json!({"signature": format!("server-{e}"), "message": format!("the compiled module {e} while being asked for its declarations"), "case": case_of(p, json!({}))}));
            return r;
        }
    };
    for pr in &v.problems {
        if pr["unsupported"] == true {
            // generator produced a shape ts-rs documents as unsupported
            r.extra.push(("discarded_unsupported".into(), 1));
            continue;
        }
        r.failures.push(json!({"signature": "declaration-unusable", "message": pr["what"], "case": case_of(p, json!({"detail": pr}))}));
    }
    if !v.problems.is_empty() {
        return r;
    }
    let tapes = byte_tapes(seed ^ fnv(&p.module.name), nvalues, 96);
    for (t, ty) in v.tys.iter().enumerate() {
        let Some(ty) = ty else { continue };
        let label = render::render_ty(&p.module.insts[t], &p.module);
        let resp = match server.request(&json!({"cmd": "gen", "m": p.index, "t": t, "tapes": tapes})) {
            Ok(x) => x,
            Err(e) => {
                r.failures.push(json!({"signature": format!("server-{e}"), "message": format!("generating/serialising values of {label}: server {e}"), "case": case_of(p, json!({"type": label}))}));
                return r;
            }
        };
        let inline_ty = okstr(&v.infos[t], "inline").and_then(|s| tsmodel::parse_type(s).ok());
        let concrete_ty = okstr(&v.infos[t], "decl_concrete").and_then(|s| tsmodel::parse_module(s).ok()).and_then(|m| m.decls.into_iter().next()).map(|d| d.body);
        let mut seen = HashSet::new();
        for val in resp.as_array().map(|a| a.as_slice()).unwrap_or(&[]) {
            let Some(js) = val["json"].as_str() else {
                r.vacuous += 1;
                if let Some(pn) = val["panic"].as_str() {
                    r.failures.push(json!({"signature": "panic-while-serialising", "message": format!("panic while generating/serialising a value of {label}: {pn}"), "case": case_of(p, json!({"type": label}))}));
                }
                continue;
            };
            if !seen.insert(js.to_string()) {
                continue;
            }
            let Ok(parsed) = serde_json::from_str::<Value>(js) else {
                r.vacuous += 1;
                continue;
            };
            r.evaluations += 1;
            let mut bad: Option<(&str, String)> = None;
            if !tsmodel::member(&parsed, ty, &v.env) {
                bad = Some(("name()/decl()", format!("{} with declarations", okstr(&v.infos[t], "name").unwrap_or(""))));
            } else if let Some(it) = &inline_ty {
                if !tsmodel::member(&parsed, it, &v.env) {
                    bad = Some(("inline()", okstr(&v.infos[t], "inline").unwrap_or("").to_string()));
                }
            }
            if bad.is_none() {
                if let Some(ct) = &concrete_ty {
                    if !tsmodel::member(&parsed, ct, &v.env) {
                        bad = Some(("decl_concrete()", okstr(&v.infos[t], "decl_concrete").unwrap_or("").to_string()));
                    }
                }
            }
            if let Some((which, text)) = bad {
                let decls: Vec<&str> = v.infos.iter().filter_map(|i| okstr(i, "decl")).collect();
                r.failures.push(json!({
                    "signature": known_signature_c01(p, t, &parsed),
                    "message": format!("serde_json output {js} of a value of `{label}` is not a member of the TypeScript type given by {which}: {text}"),
                    "case": case_of(p, json!({"type": label, "value": parsed, "against": which, "declarations": decls})),
                }));
                break;
            }
            if r.sample.is_none() && r.evaluations > 3 && js.len() > 12 {
                r.sample = Some(json!({"type": label, "decl": okstr(&v.infos[t], "decl"), "value": parsed}));
            }
        }
    }
    if p.module.nontrivial() {
        r.nontrivial_hashes.push(fnv(&strip_idents(&module_source(p))));
    }
    r
}

/// structural text of a module without identifiers/names (for distinctness)
fn strip_idents(src: &str) -> String {
    src.lines().filter(|l| !l.contains("pub mod ") && !l.contains("reg.module") && !l.contains("m.add")).collect::<Vec<_>>().join("\n")
}

pub fn c02_module(p: &Placed, server: &mut Server, nvalues: usize, nwit: usize, seed: u64) -> ModResult {
    let mut r = ModResult::default();
    r.labels = p.module.labels();
    let v = match view(p, server) {
        Ok(v) => v,
        Err(e) => {
            r.failures.push(json!({"signature": format!("server-{e}"), "message": format!("the compiled module {e}"), "case": case_of(p, json!({}))}));
            return r;
        }
    };
    if !v.problems.is_empty() {
        // C01/C04 report unusable declarations; nothing to enumerate here
        r.extra.push(("modules_with_unusable_declarations".into(), 1));
        return r;
    }
    let tapes = byte_tapes(seed ^ fnv(&p.module.name), nvalues, 96);
    let wtapes = crate::corpus::tapes(seed ^ fnv(&p.module.name) ^ 0xC02, nwit, 64);
    // which definitions does a registered type reach (model side)?
    let reach = |t: usize| -> BTreeSet<usize> {
        let mut need = BTreeSet::new();
        refs_of(&p.module.insts[t], &mut need);
        loop {
            let before = need.len();
            for i in need.clone() {
                for f in p.module.types[i].all_fields() {
                    refs_of(&f.ty, &mut need);
                }
            }
            if need.len() == before {
                break;
            }
        }
        need
    };
    let mut not_roundtripping_defs: BTreeSet<usize> = BTreeSet::new();
    let mut pass = 0;
    let mut cache: Vec<Option<(bool, Vec<Value>)>> = vec![None; v.tys.len()];
    while pass < 2 {
        pass += 1;
    for (t, ty) in v.tys.iter().enumerate() {
        let Some(ty) = ty else { continue };
        let label = render::render_ty(&p.module.insts[t], &p.module);
        if pass == 2 {
            // a type is only in the domain if everything it is built from round-trips as well
            if !reach(t).is_disjoint(&not_roundtripping_defs) {
                if matches!(cache[t], Some((true, _))) {
                    r.extra.push(("types_discarded_dependency_does_not_roundtrip".into(), 1));
                }
                continue;
            }
        }
        // domain: serde round-trips its own output for this type
        let resp = if pass == 2 {
            json!([])
        } else {
            match server.request(&json!({"cmd": "gen", "m": p.index, "t": t, "tapes": tapes})) {
                Ok(x) => x,
                Err(e) => {
                    r.failures.push(json!({"signature": format!("server-{e}"), "message": format!("values of {label}: server {e}"), "case": case_of(p, json!({"type": label}))}));
                    return r;
                }
            }
        };
        let mut roundtrips = true;
        let mut any = false;
        let mut samples: Vec<Value> = vec![];
        for val in resp.as_array().map(|a| a.as_slice()).unwrap_or(&[]) {
            match (val["json"].as_str(), val["roundtrip"].as_str()) {
                (Some(a), Some(b)) => {
                    any = true;
                    let (pa, pb) = (serde_json::from_str::<Value>(a), serde_json::from_str::<Value>(b));
                    match (pa, pb) {
                        (Ok(x), Ok(y)) if x == y => {
                            if samples.len() < 24 {
                                samples.push(x);
                            }
                        }
                        _ => roundtrips = false,
                    }
                }
                (Some(_), None) => roundtrips = false,
                _ => (),
            }
        }
        if pass == 1 && roundtrips && any {
            // JSON objects are unordered: serde must also round-trip its output when the keys
            // arrive in another (here: sorted) order. Types where it does not (integer map keys
            // or 128-bit integers behind serde's Content buffer when the tag comes late) are
            // outside the property's domain.
            let reordered: Vec<String> = samples.iter().map(|s| s.to_string()).collect();
            match server.request(&json!({"cmd": "deser", "m": p.index, "t": t, "values": reordered})) {
                Ok(resp) => {
                    for (s, res) in samples.iter().zip(resp.as_array().map(|a| a.as_slice()).unwrap_or(&[])) {
                        let same = res["ok"].as_str().and_then(|b| serde_json::from_str::<Value>(b).ok()).map_or(false, |b| b == *s);
                        if !same {
                            roundtrips = false;
                        }
                    }
                }
                Err(_) => roundtrips = false,
            }
        }
        if pass == 1 {
            if !roundtrips || !any {
                r.extra.push(("types_discarded_serde_does_not_roundtrip".into(), 1));
                if let typegen::TyExpr::User(i, _) = &p.module.insts[t] {
                    not_roundtripping_defs.insert(*i);
                }
            }
            cache[t] = Some((roundtrips && any, samples));
            continue;
        }
        let Some((true, samples)) = cache[t].clone() else { continue };
        // witnesses: enumeration, tape sampling, near-miss mutants of real samples
        let bounds = tsmodel::Bounds::default();
        let mut ws = tsmodel::witnesses(ty, &v.env, &bounds);
        for tape in &wtapes {
            if let Some(w) = tsmodel::witness_from_tape(ty, &v.env, &mut tsmodel::Tape::new(tape), 4) {
                ws.push(w);
            }
        }
        for s in &samples {
            for mutant in near_misses(s, &ws) {
                // leaves of the mutant are replaced by the universally safe pool (the property
                // restricts numbers/strings to what the Rust leaf type can represent)
                if let Some(c) = tsmodel::coerce_leaves(&mutant, ty, &v.env) {
                    if tsmodel::member(&c, ty, &v.env) {
                        ws.push(c);
                    }
                }
            }
        }
        let mut seen = BTreeSet::new();
        ws.retain(|w| seen.insert(w.to_string()));
        if ws.is_empty() {
            continue;
        }
        let strings: Vec<String> = ws.iter().map(|w| w.to_string()).collect();
        let resp = match server.request(&json!({"cmd": "deser", "m": p.index, "t": t, "values": strings})) {
            Ok(x) => x,
            Err(e) => {
                r.failures.push(json!({"signature": format!("server-{e}"), "message": format!("deserialising witnesses of {label}: server {e}"), "case": case_of(p, json!({"type": label, "witnesses": ws}))}));
                return r;
            }
        };
        let mut feats = BTreeSet::new();
        tsmodel::ty_features(ty, &v.env, 3, &mut feats);
        let interesting = feats.contains("union") || feats.contains("optional_prop") || feats.contains("tuple") || feats.contains("literal");
        for (w, res) in ws.iter().zip(resp.as_array().map(|a| a.as_slice()).unwrap_or(&[])) {
            r.evaluations += 1;
            if interesting {
                r.nontrivial_hashes.push(fnv(&format!("{}|{}", okstr(&v.infos[t], "decl").unwrap_or(""), shape_of(w))));
            }
            let decls: Vec<&str> = v.infos.iter().filter_map(|i| okstr(i, "decl")).collect();
            let case = case_of(p, json!({"type": label, "witness": w, "declarations": decls}));
            if let Some(back) = res["ok"].as_str() {
                match serde_json::from_str::<Value>(back) {
                    Ok(b) if tsmodel::member(&b, ty, &v.env) => {
                        if r.sample.is_none() && interesting && w.to_string().len() > 10 {
                            r.sample = Some(json!({"type": label, "decl": okstr(&v.infos[t], "decl"), "witness": w, "reserialised": b}));
                        }
                    }
                    _ => {
                        r.failures.push(json!({"signature": "reserialised-not-in-type", "message": format!("witness {w} of `{label}` deserialises, but re-serialises to {back} which is not a member of the type"), "case": case}));
                        break;
                    }
                }
            } else if let Some(e) = res["err"].as_str().filter(|e| serde_content_limitation(e)) {
                // serde's own buffering (Content) cannot represent 128-bit integers or non-string
                // map keys: the type is outside the round-trip domain for this key order
                let _ = e;
                r.extra.push(("witnesses_discarded_serde_content_buffer_limitation".into(), 1));
            } else if let Some(e) = res["err"].as_str() {
                r.failures.push(json!({"signature": "witness-rejected", "message": format!("{w} inhabits the TypeScript type of `{label}` ({}) but serde rejects it: {e}", okstr(&v.infos[t], "name").unwrap_or("")), "case": case}));
                break;
            } else {
                r.failures.push(json!({"signature": "deserialise-panic", "message": format!("deserialising {w} as `{label}`: {res}"), "case": case}));
                break;
            }
        }
    }
    }
    r
}

/// error messages of serde's internal `Content` buffer (untagged / internally tagged / flatten /
/// adjacently tagged with the content first): not a statement about the shape of the input
fn serde_content_limitation(e: &str) -> bool {
    if e.contains("128 is not supported") {
        return true;
    }
    if let Some(rest) = e.strip_prefix("invalid type: string \"") {
        if let Some(end) = rest.find('"') {
            let lit = &rest[..end];
            let numeric = !lit.is_empty() && lit.chars().all(|c| c.is_ascii_digit() || c == '-');
            if numeric || lit == "true" || lit == "false" {
                return true;
            }
        }
    }
    false
}

/// shape of a JSON value (keys and kinds, no leaf contents)
fn shape_of(v: &Value) -> String {
    match v {
        Value::Null => "n".into(),
        Value::Bool(_) => "b".into(),
        Value::Number(_) => "#".into(),
        Value::String(_) => "s".into(),
        Value::Array(a) => format!("[{}]", a.iter().map(shape_of).collect::<Vec<_>>().join(",")),
        Value::Object(o) => format!("{{{}}}", o.iter().map(|(k, v)| format!("{k}:{}", shape_of(v))).collect::<Vec<_>>().join(",")),
    }
}

/// near-miss mutants of a real serialised sample: drop one key, replace one sub-value by a
/// witness fragment, null out one sub-value. Only those that still inhabit the type are used.
fn near_misses(sample: &Value, pool: &[Value]) -> Vec<Value> {
    let mut out = vec![];
    fn paths(v: &Value, cur: &mut Vec<String>, out: &mut Vec<Vec<String>>, depth: u32) {
        if depth > 3 {
            return;
        }
        match v {
            Value::Object(o) => {
                for (k, x) in o {
                    cur.push(k.clone());
                    out.push(cur.clone());
                    paths(x, cur, out, depth + 1);
                    cur.pop();
                }
            }
            Value::Array(a) => {
                for (i, x) in a.iter().enumerate().take(3) {
                    cur.push(i.to_string());
                    out.push(cur.clone());
                    paths(x, cur, out, depth + 1);
                    cur.pop();
                }
            }
            _ => (),
        }
    }
    let mut ps = vec![];
    paths(sample, &mut vec![], &mut ps, 0);
    fn edit(v: &mut Value, path: &[String], f: &dyn Fn(&mut Value, &str)) {
        if path.len() == 1 {
            f(v, &path[0]);
            return;
        }
        match v {
            Value::Object(o) => {
                if let Some(x) = o.get_mut(&path[0]) {
                    edit(x, &path[1..], f)
                }
            }
            Value::Array(a) => {
                if let Some(x) = path[0].parse::<usize>().ok().and_then(|i| a.get_mut(i)) {
                    edit(x, &path[1..], f)
                }
            }
            _ => (),
        }
    }
    for p in ps.iter().take(12) {
        // drop the key / element
        let mut m = sample.clone();
        edit(&mut m, p, &|v, k| match v {
            Value::Object(o) => {
                o.remove(k);
            }
            Value::Array(a) => {
                if let Ok(i) = k.parse::<usize>() {
                    if i < a.len() {
                        a.remove(i);
                    }
                }
            }
            _ => (),
        });
        out.push(m);
        // null it
        let mut m = sample.clone();
        edit(&mut m, p, &|v, k| match v {
            Value::Object(o) => {
                o.insert(k.to_string(), Value::Null);
            }
            Value::Array(a) => {
                if let Some(x) = k.parse::<usize>().ok().and_then(|i| a.get_mut(i)) {
                    *x = Value::Null;
                }
            }
            _ => (),
        });
        out.push(m);
    }
    // swap in whole witnesses at the top (sibling union arms)
    let _ = pool;
    out
}

fn collect(out: &mut Outcome, results: Vec<(usize, ModResult)>, known: &[Known], distinct: &mut HashSet<u64>) {
    for (_, r) in results {
        out.evaluations += r.evaluations;
        out.bump("vacuous_serialisations", r.vacuous);
        for l in r.labels {
            *out.labels.entry(l).or_default() += 1;
        }
        for h in r.nontrivial_hashes {
            if distinct.insert(h) {
                out.distinct_nontrivial += 1;
            }
        }
        for (k, n) in r.extra {
            out.bump(&k, n);
        }
        if let Some(s) = r.sample {
            if out.samples.len() < 6 {
                out.samples.push(s);
            }
        }
        out.take_failures(&r.failures, known);
    }
}

/// shrink the first violation of each signature (bounded number of build rounds)
pub fn shrink_violations(ctx: &Ctx, property: &str, out: &mut Outcome) {
    let mut done = HashSet::new();
    let rounds = if ctx.thorough() { 10 } else { 6 };
    let mut shrunk = vec![];
    if std::env::var("VERIF_NO_SHRINK").is_ok() {
        return;
    }
    for (sig, f) in out.violations.iter() {
        if f["case"]["module"].is_object() && done.insert(sig.clone()) && done.len() <= 3 {
            shrunk.push((sig.clone(), shrink(ctx, property, f, rounds)));
        }
    }
    if !shrunk.is_empty() {
        out.violations = shrunk;
    }
}

pub fn profile_values() -> Profile {
    let mut p = Profile::base("values");
    p.flatten_tower = 12;
    p.cycles = 12;
    p.escape_strings = true;
    p
}

pub fn c01(ctx: &Ctx) -> ! {
    lock_subjects(ctx);
    let known = load_known(ctx, "C01");
    let mut out = Outcome::default();
    out.rule = "modules of 1-5 mutually related generated types (all struct shapes; enums of every representation incl. per-variant untagged; rename/rename_all/rename_all_fields/skip/flatten/tag/optional/inline/as/type; generics with 2-3 instantiations; unusual identifiers; nesting) compiled against /repo with derive(TS, Serialize, Deserialize); >=64 (quick) / 256 (thorough) generated values per registered type; oracle: serde_json output parsed as JSON is a member (tsmodel denotation: exact objects, bigint = integer) of name() under the module's decl()s, of inline() and of decl_concrete(). Non-trivial module: carries an attribute from {rename*, tag, content, untagged, skip, flatten, optional, inline, as, type}, a generic or a nested user type; distinct by module text".into();
    out.assumptions = vec![
        "finite floats only; 128-bit integers within the 64-bit range (serde_json::Value cannot carry more)".into(),
        "#[ts(optional)] is only generated together with skip_serializing_if = Option::is_none; serde-semantic attributes are written in serde spelling".into(),
        "serde refusing to serialise (Err) counts as vacuous".into(),
    ];
    let rounds = if ctx.thorough() { 6 } else { 1 };
    let per_round = 16 * 12;
    let nvalues = if ctx.thorough() { 256 } else { 64 };
    let mut distinct = HashSet::new();
    regression(ctx, "C01", &known, &mut out);
    for round in 0..rounds {
        let modules = gen_modules(ctx, &profile_values(), per_round, 0xC01 + round as u64 * 7919);
        let corpus = build(ctx, modules, &subjects::SlotCfg::default());
        out.bump("modules", corpus.modules.len() as u64);
        out.bump("types", corpus.modules.iter().map(|m| m.module.insts.len() as u64).sum());
        out.bump("discarded_by_rustc", corpus.discarded_by_rustc as u64);
        if round == 0 && !corpus.discarded_samples.is_empty() {
            out.extra.insert("discarded_by_rustc_sample".into(), json!(corpus.discarded_samples[0].chars().take(1200).collect::<String>()));
        }
        let seed = ctx.seed;
        let results = for_each_module(ctx, &corpus, |p, s, _| c01_module(p, s, nvalues, seed));
        collect(&mut out, results, &known, &mut distinct);
        if !out.violations.is_empty() {
            break;
        }
    }
    shrink_violations(ctx, "C01", &mut out);
    finish(ctx, "C01", out)
}

pub fn c02(ctx: &Ctx) -> ! {
    lock_subjects(ctx);
    let known = load_known(ctx, "C02");
    let mut out = Outcome::default();
    out.rule = "same generated corpus as C01, restricted per type to the fragment on which serde round-trips its own output (checked on 48 generated values); witnesses of the declared type: type-directed enumeration (each union arm, optional-property subsets, arrays 0..2, maps 0..1, leaf pool numbers 1..127 / one-letter strings), tape-driven sampling, and near-miss mutants of real serialised samples (a key dropped, a sub-value nulled) that still inhabit the type; oracle: serde_json::from_str::<T>(w) is Ok and its re-serialisation is again a member. Non-trivial: the type has a union, an optional property, a tuple or a literal; distinct by (declaration, witness shape)".into();
    out.assumptions = vec![
        "leaf values are drawn from ranges every Rust leaf type accepts; the property excludes leaf ranges".into(),
        "types on which serde does not round-trip its own output are outside the domain (counted)".into(),
    ];
    let rounds = if ctx.thorough() { 6 } else { 1 };
    let per_round = 16 * 12;
    let mut distinct = HashSet::new();
    regression(ctx, "C02", &known, &mut out);
    for round in 0..rounds {
        let mut profile = profile_values();
        profile.serde_buffer_safe = true;
        let modules = gen_modules(ctx, &profile, per_round, 0xC02 + round as u64 * 7919);
        let corpus = build(ctx, modules, &subjects::SlotCfg::default());
        out.bump("modules", corpus.modules.len() as u64);
        out.bump("types", corpus.modules.iter().map(|m| m.module.insts.len() as u64).sum());
        out.bump("discarded_by_rustc", corpus.discarded_by_rustc as u64);
        let seed = ctx.seed;
        let nwit = if ctx.thorough() { 96 } else { 32 };
        let results = for_each_module(ctx, &corpus, |p, s, _| c02_module(p, s, 48, nwit, seed));
        collect(&mut out, results, &known, &mut distinct);
        if !out.violations.is_empty() {
            break;
        }
    }
    shrink_violations(ctx, "C02", &mut out);
    finish(ctx, "C02", out)
}


pub fn profile_library() -> Profile {
    let mut p = Profile::base("library");
    p.library_types = true;
    p.max_types = 4;
    p.enums = 25;
    p.inline = 15;
    p.flatten = 0;
    p.docs = 0;
    p.rename = 4;
    p.rename_all = 8;
    p.optional = 5;
    p.skip = 2;
    p.generics = 15;
    p.unusual_idents = 5;
    p.user_refs = 40;
    p.external_only = true;
    p.unit_enum_bias = 60;
    p.enums = 35;
    p.known_wrappers = std::env::var("VERIF_KNOWN_WRAPPERS").is_ok();
    p
}

/// the same with the feature-gated third-party types (built with `SlotCfg::ext()`)
pub fn profile_library_ext() -> Profile {
    let mut p = profile_library();
    p.name = "library-ext";
    p.ext_types = true;
    p.known_objectid = std::env::var("VERIF_KNOWN_WRAPPERS").is_ok();
    p
}

const EXT_CRATES: &[&str] = &["chrono::", "bigdecimal::", "uuid::", "url::", "semver::", "smol_str::", "ordered_float::", "bson::", "indexmap::", "heapless::", "bytes::", "serde_json::"];

pub fn uses_ext(m: &typegen::Module) -> bool {
    let mut libs = BTreeSet::new();
    for td in &m.types {
        for f in td.all_fields() {
            lib_names(&f.ty, &mut libs);
        }
    }
    libs.iter().any(|n| EXT_CRATES.iter().any(|c| n.starts_with(c)))
}

fn lib_names(t: &typegen::TyExpr, out: &mut BTreeSet<String>) {
    use typegen::TyExpr::*;
    match t {
        Lib(n, args) => {
            out.insert(n.to_string());
            args.iter().for_each(|a| lib_names(a, out));
        }
        User(_, args) => args.iter().for_each(|a| lib_names(a, out)),
        Option(x) | Vec(x) | Array(x, _) | Wrap(_, x) => lib_names(x, out),
        Tuple(xs) => xs.iter().for_each(|a| lib_names(a, out)),
        Map(k, v, _) => {
            lib_names(k, out);
            lib_names(v, out);
        }
        _ => (),
    }
}

/// C12: library types as fields of generated wrappers: values inhabit the reported type (C01's
/// oracle), witnesses of the reported type deserialise (C02's oracle, where no leaf parses its
/// string), dependencies are exactly the user types among the type arguments.
pub fn c12_module(p: &Placed, server: &mut Server, nvalues: usize, seed: u64) -> ModResult {
    let mut libs = BTreeSet::new();
    for td in &p.module.types {
        for f in td.all_fields() {
            lib_names(&f.ty, &mut libs);
        }
    }
    let known_sig = if libs.contains("bson::oid::ObjectId") {
        Some("objectid-declared-as-string")
    } else if libs.contains("std::marker::PhantomData") {
        Some("phantomdata-declared-as-its-parameter")
    } else if libs.contains("std::sync::Weak") {
        Some("weak-declared-as-its-content")
    } else {
        None
    };
    let mut r = c01_module(p, server, nvalues, seed);
    if let Some(sig) = known_sig {
        for f in r.failures.iter_mut() {
            if f["signature"] == "value-not-in-type" {
                f["signature"] = json!(sig);
            }
        }
    }
    r.labels.retain(|l| l.starts_with("lib:") || l == "tuple_type" || l == "map" || l == "nesting_depth>=2");
    if !r.failures.is_empty() {
        return r;
    }
    // (third-party leaves: strings with a grammar, bounded capacities, byte ranges)
    let parses_strings = libs.iter().any(|n| n.contains("net::") || n.contains("PathBuf") || EXT_CRATES.iter().any(|c| n.starts_with(c)));
    if !parses_strings && known_sig.is_none() {
        let r2 = c02_module(p, server, 32, 16, seed);
        r.evaluations += r2.evaluations;
        r.failures.extend(r2.failures);
        r.extra.extend(r2.extra);
    } else {
        r.extra.push(("modules_without_deserialisation_check(string-parsing leaf)".into(), 1));
    }
    // dependencies == names used by the declaration
    if let Ok(v) = view(p, server) {
        for (t, info) in v.infos.iter().enumerate() {
            let label = render::render_ty(&p.module.insts[t], &p.module);
            // the concrete declaration: it mentions the type arguments of an instantiation as well
            if let (Some(decl), Some(deps)) = (okstr(info, "decl_concrete"), info["dependencies"].as_array()) {
                if let Some(d) = tsmodel::parse_module(decl).ok().and_then(|m| m.decls.into_iter().next()) {
                    let dep_names: BTreeSet<String> = deps.iter().filter_map(|x| x["ts_name"].as_str().map(|s| s.to_string())).collect();
                    let mut free = tsmodel::free_type_names(&d);
                    // + what the generic declaration itself mentions (defaults of type parameters)
                    if let Some(g) = okstr(info, "decl").and_then(|s| tsmodel::parse_module(s).ok()).and_then(|m| m.decls.into_iter().next()) {
                        free.extend(tsmodel::free_type_names(&g));
                    }
                    free.remove(&d.name);
                    let mut dn = dep_names.clone();
                    dn.remove(&d.name);
                    r.evaluations += 1;
                    if free != dn {
                        r.failures.push(json!({"signature": "dependencies-differ-from-type-arguments", "message": format!("`{label}`: decl_concrete() = {decl} mentions the user types {:?}, dependencies() reports {:?}", free, dn), "case": case_of(p, json!({"type": label}))}));
                    }
                }
            }
        }
    }
    // non-trivial: a library type at depth >= 2 or a wrapper
    if !libs.is_empty() {
        r.nontrivial_hashes = vec![fnv(&render::render_module(&p.module))];
    } else {
        r.nontrivial_hashes.clear();
    }
    r
}

pub fn c12(ctx: &Ctx) -> ! {
    lock_subjects(ctx);
    let known = load_known(ctx, "C12");
    let mut out = Outcome::default();
    out.rule = "type expressions over the supported std library types (NonZero*, PathBuf, network addresses, Option, Result, Vec, Box<[T]>, Box<str>, Cow<str>, arrays 0..=32, tuples of arity 1..=10, HashSet/BTreeSet, HashMap/BTreeMap with string/integer/char/bool/unit-enum keys, Range/RangeInclusive, Box/Rc/Arc/RefCell/Mutex/RwLock) composed to depth <=3 and placed as fields of generated structs/enums; >=64 values per type. Oracle: serde_json output is a member of the reported type (name()/inline()/decl_concrete()); where no leaf parses its string, witnesses of the reported type deserialise (C02's oracle); names of dependencies() == user types mentioned by decl(). Array lengths 33..=65 are checked by name shape only (serde has no impls). Non-trivial: module contains a library type; distinct by module text".into();
    out.assumptions = vec!["feature-gated third-party crates are not part of the quick tier".into(), "PhantomData<T> and Weak<T> are listed known findings and excluded from the search".into()];
    regression(ctx, "C12", &known, &mut out);
    array_shapes(ctx, &mut out, &known);
    let rounds = if ctx.thorough() { 6 } else { 1 };
    let mut distinct = HashSet::new();
    for round in 0..rounds {
        let modules = gen_modules(ctx, &profile_library(), 16 * 10, 0xC12 + round as u64 * 7919);
        let corpus = build(ctx, modules, &subjects::SlotCfg::default());
        out.bump("modules", corpus.modules.len() as u64);
        out.bump("types", corpus.modules.iter().map(|m| m.module.insts.len() as u64).sum());
        out.bump("discarded_by_rustc", corpus.discarded_by_rustc as u64);
        if round == 0 && !corpus.discarded_samples.is_empty() {
            out.extra.insert("discarded_by_rustc_sample".into(), json!(corpus.discarded_samples[0].chars().take(1500).collect::<String>()));
        }
        let seed = ctx.seed;
        let nvalues = if ctx.thorough() { 256 } else { 64 };
        let results = for_each_module(ctx, &corpus, |p, s, _| c12_module(p, s, nvalues, seed));
        collect(&mut out, results, &known, &mut distinct);
        if !out.violations.is_empty() {
            break;
        }
        // the feature-gated third-party types
        let modules = gen_modules(ctx, &profile_library_ext(), if ctx.thorough() { 16 * 8 } else { 16 * 5 }, 0xC12E + round as u64 * 7919);
        let corpus = build(ctx, modules, &subjects::SlotCfg::ext());
        out.bump("modules_with_third_party_crates", corpus.modules.iter().filter(|m| uses_ext(&m.module)).count() as u64);
        out.bump("modules", corpus.modules.len() as u64);
        out.bump("discarded_by_rustc", corpus.discarded_by_rustc as u64);
        if round == 0 && !corpus.discarded_samples.is_empty() {
            out.extra.insert("discarded_by_rustc_sample_ext".into(), json!(corpus.discarded_samples[0].chars().take(1500).collect::<String>()));
        }
        let results = for_each_module(ctx, &corpus, |p, s, _| c12_module(p, s, nvalues, seed));
        collect(&mut out, results, &known, &mut distinct);
        if !out.violations.is_empty() {
            break;
        }
    }
    shrink_violations(ctx, "C12", &mut out);
    finish(ctx, "C12", out)
}

/// arrays of every length 0..=65: a tuple of exactly N up to 64, `Array<T>` above
fn array_shapes(ctx: &Ctx, out: &mut Outcome, known: &[Known]) {
    let mut m = typegen::gen_module(&[3, 3, 3], &Profile::base("arrays"), "m000");
    m.types.truncate(1);
    m.types[0].params.clear();
    m.types[0].attrs = Default::default();
    m.types[0].body = typegen::Body::Named(vec![typegen::Field { ident: Some("a".into()), ..Default::default() }]);
    m.insts = vec![typegen::TyExpr::User(0, vec![])];
    let id = m.types[0].ident.clone();
    m.serde = false;
    m.extra_roots = (0..=65).flat_map(|n| vec![format!("[u8; {n}]"), format!("[Option<{id}>; {n}]")]).collect();
    let corpus = build(ctx, vec![m], &subjects::SlotCfg::default());
    let results = for_each_module(ctx, &corpus, |p, s, _| {
        let mut r = ModResult::default();
        for (k, root) in p.module.extra_roots.iter().enumerate() {
            let n = k / 2;
            r.evaluations += 1;
            let Ok(info) = s.request(&json!({"cmd": "info", "m": p.index, "t": p.module.insts.len() + k})) else { continue };
            for which in ["name", "inline"] {
                let text = okstr(&info, which).unwrap_or("");
                let ok = match tsmodel::parse_type(text) {
                    Ok(tsmodel::Ty::Tuple(ts)) => n <= 64 && ts.len() == n,
                    Ok(tsmodel::Ty::Array(_)) => n > 64,
                    _ => false,
                };
                if !ok {
                    r.failures.push(json!({"signature": "array-shape", "message": format!("{which}() of `{root}` is {text:?}: expected a tuple of exactly {n} elements up to length 64 and Array<T> above"), "case": case_of(p, json!({"type": root}))}));
                }
            }
        }
        r
    });
    let mut distinct = HashSet::new();
    collect(out, results, known, &mut distinct);
}

pub fn module_check(property: &str, p: &Placed, server: &mut Server, cwd: &std::path::Path, ctx: &Ctx) -> ModResult {
    let thorough = ctx.thorough();
    match property {
        "C12" => c12_module(p, server, if thorough { 256 } else { 64 }, ctx.seed),
        "C03" | "C04" | "C11" => crate::e2x::export_module(p, server, cwd, property, ctx.seed, false),
        "C15" => crate::e2d::c15_module(p, server, cwd),
        "C14" => crate::e2p::c14_module(p, server, ctx.seed),
        "C07" => crate::e2g::c07_module(p, server),
        "C01" => c01_module(p, server, if thorough { 256 } else { 64 }, ctx.seed),
        "C02" => c02_module(p, server, 48, if thorough { 96 } else { 32 }, ctx.seed),
        _ => inconclusive("no module check for this property"),
    }
}

/// `./check <ID> --replay file` for module-level replay files
pub fn replay_cmd(ctx: &Ctx, property: &str, file: &str) -> ! {
    lock_subjects(ctx);
    let text = std::fs::read_to_string(file).unwrap_or_else(|e| inconclusive(&format!("cannot read {file}: {e}")));
    let case: Value = serde_json::from_str(&text).unwrap_or_else(|e| inconclusive(&format!("bad replay: {e}")));
    let fails = replay_module(ctx, property, &case);
    if fails.is_empty() {
        println!("REPLAY-PASS property={property} file={file}");
        std::process::exit(0);
    }
    println!("{}", fails[0]["message"].as_str().unwrap_or(""));
    println!("VIOLATION property={property} replay={file}");
    std::process::exit(1);
}

/// rebuild the module of a replay file alone and run the property's module check on it
pub fn replay_module(ctx: &Ctx, property: &str, case: &Value) -> Vec<Value> {
    let inner = if case["case"].is_object() { &case["case"] } else { case };
    let module: typegen::Module = serde_json::from_value(inner["module"].clone()).unwrap_or_else(|e| inconclusive(&format!("replay file has no module: {e}")));
    let mut sub = Ctx::new(&ctx.tier);
    sub.seed = case["seed"].as_u64().unwrap_or(ctx.seed);
    if property == "C15" {
        return crate::e2d::replay_with_twin(&sub, module);
    }
    let cfg = subjects::SlotCfg::from_json(&inner["slot_cfg"]).unwrap_or_else(|| if uses_ext(&module) { subjects::SlotCfg::ext() } else { subjects::SlotCfg::default() });
    let corpus = build(&sub, vec![module], &cfg);
    if corpus.modules.is_empty() {
        return vec![json!({"signature": "replay-does-not-compile", "message": format!("the module of the replay file no longer compiles: {}", corpus.discarded_samples.first().cloned().unwrap_or_default())})];
    }
    let results = for_each_module(&sub, &corpus, |p, s, cwd| module_check(property, p, s, cwd, &sub));
    results.into_iter().flat_map(|(_, r)| r.failures).collect()
}

// ---------------------------------------------------------------------------------------------
// shrinking: a case costs a compile, so 16 candidate simplifications are built and evaluated
// per round (one per slot crate); the smallest one that still fails the same way is adopted.
// ---------------------------------------------------------------------------------------------

fn remap_ty(t: &mut typegen::TyExpr, map: &std::collections::HashMap<usize, usize>) -> bool {
    use typegen::TyExpr::*;
    match t {
        User(i, args) => {
            match map.get(i) {
                Some(n) => *i = *n,
                None => return false,
            }
            args.iter_mut().all(|a| remap_ty(a, map))
        }
        Option(x) | Vec(x) | Array(x, _) | Wrap(_, x) => remap_ty(x, map),
        Tuple(xs) => xs.iter_mut().all(|a| remap_ty(a, map)),
        Map(k, v, _) => remap_ty(k, map) && remap_ty(v, map),
        Lib(_, args) => args.iter_mut().all(|a| remap_ty(a, map)),
        _ => true,
    }
}

fn refs_of(t: &typegen::TyExpr, out: &mut BTreeSet<usize>) {
    use typegen::TyExpr::*;
    match t {
        User(i, args) => {
            out.insert(*i);
            args.iter().for_each(|a| refs_of(a, out));
        }
        Option(x) | Vec(x) | Array(x, _) | Wrap(_, x) => refs_of(x, out),
        Tuple(xs) => xs.iter().for_each(|a| refs_of(a, out)),
        Map(k, v, _) => {
            refs_of(k, out);
            refs_of(v, out);
        }
        Lib(_, args) => args.iter().for_each(|a| refs_of(a, out)),
        _ => (),
    }
}

/// keep only the given registered types and the definitions they need
fn restrict(m: &typegen::Module, keep_insts: &[usize]) -> Option<typegen::Module> {
    let mut need = BTreeSet::new();
    for i in keep_insts {
        refs_of(&m.insts[*i], &mut need);
    }
    loop {
        let before = need.len();
        for i in need.clone() {
            // (all_fields_mut also yields the fields of skipped variants, which are still rendered)
            let mut td = m.types[i].clone();
            td.for_each_ty_mut(&mut |t| refs_of(t, &mut need));
        }
        if need.len() == before {
            break;
        }
    }
    let map: std::collections::HashMap<usize, usize> = need.iter().enumerate().map(|(n, o)| (*o, n)).collect();
    let mut out = typegen::Module { name: m.name.clone(), types: vec![], insts: vec![], serde: m.serde, extra_roots: m.extra_roots.clone(), without_ts_derive: m.without_ts_derive };
    for o in &need {
        let mut td = m.types[*o].clone();
        let mut ok = true;
        td.for_each_ty_mut(&mut |t| ok &= remap_ty(t, &map));
        if !ok {
            return None;
        }
        out.types.push(td);
    }
    for i in keep_insts {
        let mut t = m.insts[*i].clone();
        if !remap_ty(&mut t, &map) {
            return None;
        }
        out.insts.push(t);
    }
    // every definition must stay registered at least once: its decl() is part of the environment
    for (n, td) in out.types.iter().enumerate() {
        let registered = out.insts.iter().any(|t| matches!(t, typegen::TyExpr::User(i, _) if *i == n));
        if !registered {
            // (a concretised parameter is instantiated at its concrete type)
            let args = td.params.iter().map(|p| p.concrete.clone().unwrap_or(typegen::TyExpr::Prim("i32"))).collect();
            out.insts.push(typegen::TyExpr::User(n, args));
        }
    }
    if !valid(&out) {
        return None;
    }
    Some(out)
}

/// generator invariants the shrinker must preserve (otherwise it manufactures failures)
fn valid(m: &typegen::Module) -> bool {
    use typegen::{Body, TyExpr, VBody};
    for td in &m.types {
        if let Body::Enum(vs) = &td.body {
            let is_rec = |v: &typegen::Variant| match &v.body {
                VBody::Unit => false,
                VBody::Newtype(f) => matches!(f.ty, TyExpr::SelfRef(s) if !s.starts_with("Option") && !s.starts_with("Vec")),
                VBody::Tuple(fs) | VBody::Named(fs) => fs.iter().any(|f| matches!(f.ty, TyExpr::SelfRef(s) if !s.starts_with("Option") && !s.starts_with("Vec"))),
            };
            // the first live variant is what the value generator falls back to at the depth limit
            match vs.iter().find(|v| !v.skip) {
                Some(v) if is_rec(v) => return false,
                None if !vs.is_empty() => return false,
                _ => (),
            }
            // untagged variants stay a suffix
            let mut seen_untagged = false;
            for v in vs {
                if v.untagged {
                    seen_untagged = true;
                } else if seen_untagged {
                    return false;
                }
            }
        }
    }
    true
}

fn size_of(m: &typegen::Module) -> usize {
    render::render_module(m).len()
}

/// one-step simplifications of a module
fn candidates(m: &typegen::Module) -> Vec<typegen::Module> {
    use typegen::{Body, VBody};
    let mut out = vec![];
    // single registered type
    if m.insts.len() > 1 {
        for i in 0..m.insts.len() {
            if let Some(r) = restrict(m, &[i]) {
                out.push(r);
            }
        }
    }
    for ti in (0..m.types.len()).rev() {
        let td = &m.types[ti];
        let push = |out: &mut Vec<typegen::Module>, f: &dyn Fn(&mut typegen::TypeDef)| {
            let mut c = m.clone();
            f(&mut c.types[ti]);
            if c != *m {
                let keep: Vec<usize> = (0..c.insts.len()).collect();
                if let Some(r) = restrict(&c, &keep) {
                    out.push(r);
                }
            }
        };
        match &td.body {
            Body::Named(fs) | Body::Tuple(fs) if fs.len() > 1 => {
                for k in 0..fs.len() {
                    push(&mut out, &|t| {
                        if let Body::Named(fs) | Body::Tuple(fs) = &mut t.body {
                            fs.remove(k);
                            if fs.len() == 1 && matches!(t.body, Body::Tuple(_)) {
                                if let Body::Tuple(fs) = &mut t.body {
                                    let f = fs.remove(0);
                                    t.body = Body::Newtype(f);
                                }
                            }
                        }
                    });
                }
            }
            Body::Enum(vs) if vs.len() > 1 => {
                for k in 0..vs.len() {
                    push(&mut out, &|t| {
                        if let Body::Enum(vs) = &mut t.body {
                            vs.remove(k);
                        }
                    });
                }
            }
            _ => (),
        }
        if let Body::Enum(vs) = &td.body {
            for (k, v) in vs.iter().enumerate() {
                if let VBody::Named(fs) | VBody::Tuple(fs) = &v.body {
                    if fs.len() > 1 {
                        for j in 0..fs.len() {
                            push(&mut out, &|t| {
                                if let Body::Enum(vs) = &mut t.body {
                                    if let VBody::Named(fs) | VBody::Tuple(fs) = &mut vs[k].body {
                                        fs.remove(j);
                                        if fs.len() == 1 && matches!(vs[k].body, VBody::Tuple(_)) {
                                            if let VBody::Tuple(fs) = &mut vs[k].body {
                                                let f = fs.remove(0);
                                                vs[k].body = VBody::Newtype(f);
                                            }
                                        }
                                    }
                                }
                            });
                        }
                    }
                }
                if v.rename.is_some() || v.rename_all.is_some() || v.docs.is_some() {
                    push(&mut out, &|t| {
                        if let Body::Enum(vs) = &mut t.body {
                            vs[k].rename = None;
                            vs[k].rename_all = None;
                            vs[k].docs = None;
                        }
                    });
                }
            }
        }
        // container attributes
        push(&mut out, &|t| {
            t.docs = None;
            t.attrs.rename = None;
            t.attrs.export_to = None;
        });
        push(&mut out, &|t| {
            t.attrs.rename_all = None;
            t.attrs.rename_all_fields = None;
        });
        // field attributes / types
        let nfields = td.all_fields().len();
        for k in 0..nfields {
            push(&mut out, &|t| {
                let mut fs = t.all_fields_mut();
                if let Some(f) = fs.get_mut(k) {
                    f.docs = None;
                    f.rename = None;
                    f.inline = false;
                    f.as_same = false;
                    f.type_override = None;
                }
            });
            push(&mut out, &|t| {
                let mut fs = t.all_fields_mut();
                if let Some(f) = fs.get_mut(k) {
                    if !f.flatten && !matches!(f.ty, typegen::TyExpr::Param(_) | typegen::TyExpr::SelfRef(_)) && f.optional.is_none() && !f.skip_if_none {
                        f.ty = typegen::TyExpr::Prim("i32");
                        f.inline = false;
                        f.as_same = false;
                        f.type_override = None;
                    }
                }
            });
        }
    }
    let mut seen = HashSet::new();
    out.retain(|c| seen.insert(render::render_module(c)));
    out.sort_by_key(size_of);
    out
}

/// Shrink a failing module. Returns the smallest module found that still produces a failure with
/// the same signature, together with that failure.
pub fn shrink(ctx: &Ctx, property: &str, failure: &Value, max_rounds: usize) -> Value {
    let sig = failure["signature"].as_str().unwrap_or("").to_string();
    let Ok(mut best) = serde_json::from_value::<typegen::Module>(failure["case"]["module"].clone()) else {
        return failure.clone();
    };
    let mut best_failure = failure.clone();
    for _round in 0..max_rounds {
        let cands: Vec<typegen::Module> = candidates(&best).into_iter().take(subjects::NSLOTS).collect();
        if cands.is_empty() {
            break;
        }
        let named: Vec<typegen::Module> = cands
            .into_iter()
            .enumerate()
            .map(|(i, mut c)| {
                c.name = format!("m{i:03}");
                c
            })
            .collect();
        let cfg = subjects::SlotCfg::from_json(&failure["case"]["slot_cfg"]).unwrap_or_else(|| if named.iter().any(uses_ext) { subjects::SlotCfg::ext() } else { subjects::SlotCfg::default() });
        let corpus = build(ctx, named, &cfg);
        let results = for_each_module(ctx, &corpus, |p, s, cwd| module_check(property, p, s, cwd, ctx));
        let mut hit: Option<(usize, Value)> = None;
        for (i, r) in results {
            if let Some(f) = r.failures.into_iter().find(|f| f["signature"].as_str() == Some(sig.as_str())) {
                let sz = size_of(&corpus.modules[i].module);
                if hit.as_ref().map_or(true, |(s, _)| sz < *s) {
                    hit = Some((sz, f));
                }
            }
        }
        match hit {
            Some((_, f)) => {
                if let Ok(m) = serde_json::from_value::<typegen::Module>(f["case"]["module"].clone()) {
                    if size_of(&m) >= size_of(&best) {
                        break;
                    }
                    best = m;
                    best_failure = f;
                } else {
                    break;
                }
            }
            None => break,
        }
    }
    best_failure
}

/// Regression tier for module-level replay files: every file of the known-findings list and
/// every replays/<ID>/keep-*.json is rebuilt (one build for all) and re-evaluated.
pub fn regression(ctx: &Ctx, property: &str, known: &[Known], out: &mut Outcome) {
    let mut files: Vec<(std::path::PathBuf, Option<Known>)> = vec![];
    for k in known {
        if let Some(r) = &k.replay {
            files.push((ctx.verif.join(r), Some(k.clone())));
        }
    }
    if let Ok(rd) = std::fs::read_dir(ctx.verif.join("replays").join(property)) {
        for e in rd.flatten() {
            if e.file_name().to_string_lossy().starts_with("keep-") {
                files.push((e.path(), None));
            }
        }
    }
    let mut modules = vec![];
    let mut owners = vec![];
    for (f, k) in &files {
        let Ok(text) = std::fs::read_to_string(f) else { continue };
        let Ok(case) = serde_json::from_str::<Value>(&text) else { continue };
        let inner = if case["case"].is_object() { &case["case"] } else { &case };
        let Ok(mut m) = serde_json::from_value::<typegen::Module>(inner["module"].clone()) else { continue };
        m.name = format!("m{:03}", modules.len());
        modules.push(m);
        owners.push((f.clone(), k.clone()));
    }
    if modules.is_empty() {
        return;
    }
    let cfg = if modules.iter().any(uses_ext) { subjects::SlotCfg::ext() } else { subjects::SlotCfg::default() };
    let corpus = build(ctx, modules, &cfg);
    let results = for_each_module(ctx, &corpus, |p, s, cwd| (p.module.name.clone(), module_check(property, p, s, cwd, ctx)));
    for (_, (name, r)) in results {
        let idx: usize = name[1..].parse().unwrap_or(0);
        let (file, k) = &owners[idx];
        out.bump("replays_run", 1);
        match k {
            Some(k) if k.status == "known" => {
                for f in &r.failures {
                    if f["signature"].as_str() == Some(k.signature.as_str()) {
                        out.known_reproduced.insert(k.signature.clone(), k.what.clone());
                    } else {
                        out.violations.push((format!("regression-{}", f["signature"].as_str().unwrap_or("x")), f.clone()));
                    }
                }
            }
            _ => {
                for f in &r.failures {
                    let mut f = f.clone();
                    f["message"] = json!(format!("regression ({}): {}", file.display(), f["message"].as_str().unwrap_or("")));
                    out.violations.push((format!("regression-{}", f["signature"].as_str().unwrap_or("x")), f));
                }
            }
        }
    }
}
