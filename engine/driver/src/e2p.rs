//! C14: inline, flatten and `as` change presentation, never meaning.
use std::collections::{BTreeMap, HashSet};

use serde_json::{json, Value};
use typegen::{render, Body, Module, Profile, TyExpr};

use crate::{
    common::*,
    corpus::*,
    e2::{c01_module, case_of, view, ModResult},
    subjects,
};

pub fn profile_presentations() -> Profile {
    let mut p = Profile::base("presentations");
    p.max_types = 5;
    p.user_refs = 70;
    p.generics = 25;
    p.inline = 10;
    p.flatten = 10;
    p.docs = 0;
    p.optional = 65;
    p.unusual_idents = 15;
    p.flatten_tower = 15;
    p
}

/// (type index, field index) of the field whose presentation is varied: the last named-struct
/// field whose type is a user type (possibly inside Option / Vec / Box)
fn pick_field(m: &Module) -> Option<(usize, usize)> {
    for (ti, td) in m.types.iter().enumerate().rev() {
        if let Body::Named(fs) = &td.body {
            for (fi, f) in fs.iter().enumerate().rev() {
                let core = match &f.ty {
                    TyExpr::Option(t) | TyExpr::Vec(t) | TyExpr::Wrap(_, t) => t.as_ref(),
                    t => t,
                };
                if matches!(core, TyExpr::User(..)) && !f.skip && f.type_override.is_none() && !f.as_same && f.rename.is_none() {
                    return Some((ti, fi));
                }
            }
        }
    }
    None
}

fn flattenable(m: &Module, idx: usize) -> bool {
    let td = &m.types[idx];
    if !td.params.is_empty() {
        return false;
    }
    match &td.body {
        Body::Named(fs) => fs.iter().any(|f| !f.skip),
        Body::Enum(vs) => {
            !vs.is_empty()
                && match td.attrs.repr() {
                    typegen::Repr::External => vs.iter().filter(|v| !v.skip).all(|v| match &v.body {
                        typegen::VBody::Unit => false,
                        typegen::VBody::Newtype(f) => !f.skip && !v.untagged,
                        typegen::VBody::Named(_) => true,
                        _ => !v.untagged,
                    }),
                    typegen::Repr::Internal | typegen::Repr::Adjacent => vs.iter().all(|v| !v.untagged),
                    typegen::Repr::Untagged => false,
                }
        }
        _ => false,
    }
}

fn flatten_closure(m: &Module, idx: usize, out: &mut std::collections::BTreeSet<usize>) {
    if !out.insert(idx) {
        return;
    }
    for f in m.types[idx].all_fields() {
        if f.flatten {
            if let Some(i) = typegen::flatten_target(&f.ty) {
                flatten_closure(m, i, out);
            }
        }
    }
    // (the content of a newtype variant of an internally tagged enum is merged into the object too)
    if let Body::Enum(vs) = &m.types[idx].body {
        if m.types[idx].attrs.repr() == typegen::Repr::Internal {
            for v in vs {
                if let typegen::VBody::Newtype(f) = &v.body {
                    if let Some(i) = typegen::flatten_target(&f.ty) {
                        flatten_closure(m, i, out);
                    }
                }
            }
        }
    }
}


fn shift_ty(t: &mut TyExpr, pos: usize) {
    match t {
        TyExpr::User(i, args) => {
            if *i >= pos {
                *i += 1;
            }
            args.iter_mut().for_each(|a| shift_ty(a, pos));
        }
        TyExpr::Option(x) | TyExpr::Vec(x) | TyExpr::Array(x, _) | TyExpr::Wrap(_, x) => shift_ty(x, pos),
        TyExpr::Tuple(xs) => xs.iter_mut().for_each(|a| shift_ty(a, pos)),
        TyExpr::Map(k, v, _) => {
            shift_ty(k, pos);
            shift_ty(v, pos);
        }
        TyExpr::Lib(_, args) => args.iter_mut().for_each(|a| shift_ty(a, pos)),
        _ => (),
    }
}

fn shift_def(td: &mut typegen::TypeDef, pos: usize) {
    for f in td.all_fields_mut() {
        shift_ty(&mut f.ty, pos);
        if let Some(a) = &mut f.as_type {
            shift_ty(a, pos);
        }
    }
    for p in td.params.iter_mut() {
        if let Some(d) = &mut p.default {
            shift_ty(d, pos);
        }
        if let Some(d) = &mut p.concrete {
            shift_ty(d, pos);
        }
    }
    if let Some(a) = &mut td.attrs.as_type {
        shift_ty(a, pos);
    }
    if let Body::Enum(vs) = &mut td.body {
        for v in vs {
            if let Some(a) = &mut v.as_type {
                shift_ty(a, pos);
            }
        }
    }
}

/// insert a definition at index `pos` (every reference >= pos moves up by one) and register it
fn insert_type(m: &mut Module, pos: usize, mut td: typegen::TypeDef) {
    for t in m.types.iter_mut() {
        shift_def(t, pos);
    }
    for t in m.insts.iter_mut() {
        shift_ty(t, pos);
    }
    shift_def(&mut td, pos);
    m.types.insert(pos, td);
    m.insts.push(TyExpr::User(pos, vec![]));
}

fn mentions_param_or_self(t: &TyExpr) -> bool {
    match t {
        TyExpr::Param(_) | TyExpr::SelfRef(_) => true,
        TyExpr::User(_, args) | TyExpr::Lib(_, args) | TyExpr::Tuple(args) => args.iter().any(mentions_param_or_self),
        TyExpr::Option(x) | TyExpr::Vec(x) | TyExpr::Array(x, _) | TyExpr::Wrap(_, x) => mentions_param_or_self(x),
        TyExpr::Map(k, v, _) => mentions_param_or_self(k) || mentions_param_or_self(v),
        _ => false,
    }
}

/// (enum index, variant index) of the struct variant that gets `#[ts(as = "U")]`
fn pick_variant(m: &Module) -> Option<(usize, usize)> {
    for (ei, td) in m.types.iter().enumerate().rev() {
        if !td.params.is_empty() || !td.lifetimes.is_empty() || !td.consts.is_empty() || td.attrs.type_override.is_some() || td.attrs.as_type.is_some() {
            continue;
        }
        if let Body::Enum(vs) = &td.body {
            for (vi, v) in vs.iter().enumerate().rev() {
                if let typegen::VBody::Named(fs) = &v.body {
                    if !fs.is_empty() && !v.skip && v.rename_all.is_none() && v.as_type.is_none() && !fs.iter().any(|f| mentions_param_or_self(&f.ty)) {
                        return Some((ei, vi));
                    }
                }
            }
        }
    }
    None
}

/// `#[ts(as = "U")]` on a struct variant, U being a struct with the variant's fields (and the
/// enum's `rename_all_fields` as its `rename_all`): the binding the variant would have if its
/// Rust type were U
fn make_variant_as_twin(n: &Module) -> Option<Module> {
    let (ei, vi) = pick_variant(n)?;
    let td = &n.types[ei];
    let Body::Enum(vs) = &td.body else { return None };
    let typegen::VBody::Named(fs) = &vs[vi].body else { return None };
    let mut u = typegen::TypeDef {
        ident: format!("{}{}AsTwin", td.ident.trim_start_matches("r#"), vs[vi].ident.trim_start_matches("r#")),
        lifetimes: vec![],
        consts: vec![],
        const_first: false,
        const_default: false,
        params: vec![],
        body: Body::Named(fs.clone()),
        attrs: Default::default(),
        docs: None,
    };
    u.attrs.rename_all = td.attrs.rename_all_fields;
    let mut a = n.clone();
    insert_type(&mut a, ei, u);
    if let Body::Enum(vs) = &mut a.types[ei + 1].body {
        vs[vi].as_type = Some(TyExpr::User(ei, vec![]));
    }
    Some(a)
}

/// (enum index, variant index) of a newtype variant whose payload can be wrapped in `Option`
fn pick_newtype_variant(m: &Module) -> Option<(usize, usize)> {
    for (ei, td) in m.types.iter().enumerate().rev() {
        if td.attrs.type_override.is_some() || td.attrs.as_type.is_some() {
            continue;
        }
        if let Body::Enum(vs) = &td.body {
            for (vi, v) in vs.iter().enumerate().rev() {
                if let typegen::VBody::Newtype(f) = &v.body {
                    let plain = !f.skip && !f.inline && !f.as_same && f.as_type.is_none() && f.type_override.is_none() && f.optional.is_none();
                    // (a payload written as nothing - `()`, a unit struct - has no `Option` form in
                    // an internally tagged enum: `{ "t": "V" } & (null | null)`)
                    let unit = match &f.ty {
                        TyExpr::Prim("()") => true,
                        TyExpr::User(u, _) => matches!(m.types[*u].body, Body::Unit),
                        _ => false,
                    };
                    if plain && !unit && !v.skip && v.as_type.is_none() && !matches!(f.ty, TyExpr::SelfRef(_) | TyExpr::Option(_)) {
                        return Some((ei, vi));
                    }
                }
            }
        }
    }
    None
}

/// `#[ts(as = "Option<T>")] V(T)` against `V(Option<T>)`: "`as` on a variant yields exactly the
/// binding the item would have if its Rust type were U" - with a U whose name is a union
fn make_variant_option_twins(n: &Module) -> Option<(Module, Module)> {
    let (ei, vi) = pick_newtype_variant(n)?;
    let (mut a, mut b) = (n.clone(), n.clone());
    if let (Body::Enum(va), Body::Enum(vb)) = (&mut a.types[ei].body, &mut b.types[ei].body) {
        if let (typegen::VBody::Newtype(fa), typegen::VBody::Newtype(fb)) = (&va[vi].body.clone(), &mut vb[vi].body) {
            let opt = TyExpr::Option(Box::new(fa.ty.clone()));
            va[vi].as_type = Some(opt.clone());
            fb.ty = opt;
            return Some((a, b));
        }
    }
    None
}

/// the enum both twins were derived from (the variant whose `as` / type differs)
fn pick_newtype_variant_of_base(a: &Module, b: &Module) -> Option<(usize, usize)> {
    for (ei, (ta, tb)) in a.types.iter().zip(b.types.iter()).enumerate() {
        if let (Body::Enum(va), Body::Enum(vb)) = (&ta.body, &tb.body) {
            for (vi, (x, y)) in va.iter().zip(vb.iter()).enumerate() {
                if x.as_type.is_some() && y.as_type.is_none() {
                    return Some((ei, vi));
                }
            }
        }
    }
    None
}

/// the plain container that gets `#[ts(as = "U")]` (`as` excludes rename_all / tag / optional_fields)
fn pick_container(m: &Module) -> Option<usize> {
    for (i, td) in m.types.iter().enumerate().rev() {
        let a = &td.attrs;
        let plain = td.params.is_empty()
            && td.lifetimes.is_empty()
            && td.consts.is_empty()
            && a.rename_all.is_none()
            && a.rename_all_fields.is_none()
            && a.tag.is_none()
            && a.content.is_none()
            && !a.untagged
            && a.optional_fields.is_none()
            && a.type_override.is_none()
            && a.as_type.is_none();
        if plain && !matches!(td.body, Body::Unit) && !td.all_fields().iter().any(|f| mentions_param_or_self(&f.ty)) {
            return Some(i);
        }
    }
    None
}

fn make_container_as_twin(n: &Module) -> Option<Module> {
    let i = pick_container(n)?;
    let mut u = n.types[i].clone();
    u.ident = format!("{}AsTwin", u.ident.trim_start_matches("r#"));
    u.attrs.rename = None;
    u.attrs.export_to = None;
    u.docs = None;
    let mut a = n.clone();
    insert_type(&mut a, i, u);
    a.types[i + 1].attrs.as_type = Some(TyExpr::User(i, vec![]));
    Some(a)
}

/// the `as` presentation of the field (ti, fi) of `n`: the field's user type is replaced by a
/// structurally equal twin definition and `as` names the original type
fn make_as_twin(n: &Module, ti: usize, fi: usize) -> Option<Module> {
    let field = match &n.types[ti].body {
        Body::Named(fs) => fs[fi].clone(),
        _ => return None,
    };
    let mut out: Vec<(&'static str, Module)> = vec![];
    // `as`: the field gets a structurally equal twin type, `as` names the original
    let core_user = |t: &TyExpr| -> Option<usize> {
        match t {
            TyExpr::User(u, a) if a.is_empty() => Some(*u),
            TyExpr::Option(x) | TyExpr::Vec(x) | TyExpr::Wrap(_, x) => match x.as_ref() {
                TyExpr::User(u, a) if a.is_empty() => Some(*u),
                _ => None,
            },
            _ => None,
        }
    };
    if let Some(u) = core_user(&field.ty) {
        // (a struct-level tag writes the struct's own name: a renamed copy would serialise differently)
        let name_on_the_wire = matches!(n.types[u].body, Body::Named(_)) && n.types[u].attrs.tag.is_some();
        if n.types[u].params.is_empty() && u < ti && !name_on_the_wire {
            let mut a = n.clone();
            let mut clone = a.types[u].clone();
            clone.ident = format!("{}Twin", clone.ident.trim_start_matches("r#"));
            clone.attrs.rename = None;
            clone.attrs.export_to = None;
            // insert the twin definition right after the original: indices >= u+1 shift by one
            let pos = u + 1;
            fn shift(t: &mut TyExpr, pos: usize) {
                match t {
                    TyExpr::User(i, args) => {
                        if *i >= pos {
                            *i += 1;
                        }
                        args.iter_mut().for_each(|a| shift(a, pos));
                    }
                    TyExpr::Option(x) | TyExpr::Vec(x) | TyExpr::Array(x, _) | TyExpr::Wrap(_, x) => shift(x, pos),
                    TyExpr::Tuple(xs) => xs.iter_mut().for_each(|a| shift(a, pos)),
                    TyExpr::Map(k, v, _) => {
                        shift(k, pos);
                        shift(v, pos);
                    }
                    TyExpr::Lib(_, args) => args.iter_mut().for_each(|a| shift(a, pos)),
                    _ => (),
                }
            }
            for td in a.types.iter_mut() {
                for f in td.all_fields_mut() {
                    shift(&mut f.ty, pos);
                }
                for p in td.params.iter_mut() {
                    if let Some(d) = &mut p.default {
                        shift(d, pos);
                    }
                }
            }
            for t in a.insts.iter_mut() {
                shift(t, pos);
            }
            for f in clone.all_fields_mut() {
                shift(&mut f.ty, pos);
            }
            a.types.insert(pos, clone);
            a.insts.push(TyExpr::User(pos, vec![]));
            let ti2 = ti + 1;
            let as_ty = field.ty.clone();
            fn retarget(t: &mut TyExpr, from: usize, to: usize) {
                match t {
                    TyExpr::User(i, _) if *i == from => *i = to,
                    TyExpr::Option(x) | TyExpr::Vec(x) | TyExpr::Wrap(_, x) => retarget(x, from, to),
                    _ => (),
                }
            }
            if let Body::Named(fs) = &mut a.types[ti2].body {
                let mut shifted_as = as_ty.clone();
                shift(&mut shifted_as, pos);
                retarget(&mut fs[fi].ty, u, pos);
                fs[fi].as_type = Some(shifted_as);
            }
            out.push(("as", a));
        }
    }
    out.pop().map(|x| x.1)
}

/// the presentation twins of a module: name -> module
pub fn twins(base: &Module) -> Vec<(&'static str, Module)> {
    let mut extra = vec![];
    if let Some(a) = make_variant_as_twin(base) {
        extra.push(("variant-as", a));
    }
    if let Some(a) = make_container_as_twin(base) {
        extra.push(("container-as", a));
    }
    if let Some((a, b)) = make_variant_option_twins(base) {
        extra.push(("zvariant-as-option", a));
        extra.push(("yvariant-option", b));
    }
    let Some((ti, fi)) = pick_field(base) else {
        if extra.is_empty() {
            return vec![];
        }
        extra.insert(0, ("plain", base.clone()));
        return extra;
    };
    let set = |m: &mut Module, f: &dyn Fn(&mut typegen::Field)| {
        if let Body::Named(fs) = &mut m.types[ti].body {
            f(&mut fs[fi]);
        }
    };
    let mut out = vec![("plain", base.clone())];
    out.extend(extra);
    // by name
    let mut n = base.clone();
    set(&mut n, &|f| {
        f.inline = false;
        f.flatten = false;
        f.as_type = None;
    });
    let field = match &n.types[ti].body {
        Body::Named(fs) => fs[fi].clone(),
        _ => return vec![],
    };
    out.push(("byname", n.clone()));
    // inline (not through tuples / self references: documented unsupported)
    let mut i = n.clone();
    set(&mut i, &|f| f.inline = true);
    out.push(("inline", i));
    // flatten: the field type must be the bare user type and object-like
    if let TyExpr::User(u, args) = &field.ty {
        let mut others = std::collections::BTreeSet::new();
        if let Body::Named(fs) = &n.types[ti].body {
            for (k, f) in fs.iter().enumerate() {
                if k != fi && f.flatten {
                    if let Some(t) = typegen::flatten_target(&f.ty) {
                        flatten_closure(&n, t, &mut others);
                    }
                }
            }
        }
        let mut mine = std::collections::BTreeSet::new();
        flatten_closure(&n, *u, &mut mine);
        if args.is_empty() && flattenable(&n, *u) && field.optional.is_none() && mine.is_disjoint(&others) {
            let mut fl = n.clone();
            set(&mut fl, &|f| {
                f.flatten = true;
                f.skip_if_none = false;
            });
            out.push(("flatten", fl));
        }
    }
    if let Some(a) = make_as_twin(&n, ti, fi) {
        out.push(("as", a));
    }
    // the same pair once more with a field-level `#[ts(optional)]` on an Option of the type
    let mut on = n.clone();
    set(&mut on, &|f| {
        if !matches!(f.ty, TyExpr::Option(_)) {
            let inner = std::mem::take(&mut f.ty);
            f.ty = TyExpr::Option(Box::new(inner));
        }
        f.optional = Some(false);
        f.skip_if_none = true;
        f.inline = false;
        f.flatten = false;
    });
    if on.types[ti].attrs.optional_fields.is_none() {
        if let Some(a) = make_as_twin(&on, ti, fi) {
            out.push(("optional", on));
            out.push(("xoptional-as", a));
        }
    }
    out
}

/// per twin: C01's value check + the module's declarations as payload
pub fn c14_module(p: &Placed, server: &mut Server, seed: u64) -> ModResult {
    let mut r = c01_module(p, server, 48, seed);
    let v = match view(p, server) {
        Ok(v) => v,
        Err(_) => return r,
    };
    let mut decls = BTreeMap::new();
    for (t, info) in v.infos.iter().enumerate() {
        let label = render::render_ty(&p.module.insts[t], &p.module);
        // inline() == body of decl_concrete() (documented string equality)
        if let (Some(dc), Some(inl), Some(ident)) = (okstr(info, "decl_concrete"), okstr(info, "inline"), okstr(info, "ident")) {
            r.evaluations += 1;
            if dc != format!("type {ident} = {inl};") {
                r.failures.push(json!({"signature": "decl-concrete-is-not-inline", "message": format!("`{label}`: decl_concrete() = {dc:?} but inline() = {inl:?}"), "case": case_of(p, json!({"type": label}))}));
            }
        }
        // inline() denotes the body of decl() instantiated at the arguments
        if let (Some(d), Some(inl), Some(name)) = (okstr(info, "decl"), okstr(info, "inline"), okstr(info, "name")) {
            if let (Ok(nty), Ok(ity)) = (tsmodel::parse_type(name), tsmodel::parse_type(inl)) {
                r.evaluations += 1;
                if let Some(dist) = tsmodel::distinguish(&nty, &v.env, &ity, &v.env, &[]) {
                    let known = if let TyExpr::User(i, args) = &p.module.insts[t] {
                        p.module.types[*i].attrs.optional_fields.is_some() && args.iter().any(|a| matches!(a, TyExpr::Option(_)))
                    } else {
                        false
                    };
                    r.failures.push(json!({"signature": if known { "optional-fields-on-bare-parameter-instantiated-with-option" } else { "inline-differs-from-instantiated-decl" }, "message": format!("`{label}`: {} is a member of {} only ({} = decl {d}; inline() = {inl})", dist.value, if dist.in_left { "the instantiated declaration" } else { "inline()" }, name), "case": case_of(p, json!({"type": label}))}));
                }
            }
        }
        if let Some(d) = okstr(info, "decl") {
            decls.insert(label, d.to_string());
        }
    }
    r.payload = Some(json!(decls));
    r
}

fn env_of(decls: &Value) -> tsmodel::Env {
    let mut env = tsmodel::Env::new();
    if let Some(o) = decls.as_object() {
        for d in o.values() {
            if let Some(dd) = d.as_str().and_then(|s| tsmodel::parse_module(s).ok()).and_then(|m| m.decls.into_iter().next()) {
                env.insert(dd.name.clone(), dd);
            }
        }
    }
    env
}

pub fn c14(ctx: &Ctx) -> ! {
    lock_subjects(ctx);
    let known = load_known(ctx, "C14");
    let mut out = Outcome::default();
    out.rule = "for each generated module the last named-struct field of a user type (bare, or inside Option/Vec/Box) is presented in up to four ways - by name, #[ts(inline)], #[serde(flatten)] (object-like bare types), and `as = \"U\"` on a field whose Rust type is a structurally equal twin definition - and each presentation twin is compiled. Oracle: (a) C01's value check on every twin (serde's flatten is the ground truth for the flattened twin); (b) distinguish(by-name, inline): no JSON witness in one and not the other; (c) the outer declaration of the `as` twin is textually identical to by-name; (d) witnesses of the by-name twin with the field's object merged into the parent are members of the flattened twin; (e) decl_concrete() == `type N = inline()`; (f) inline() and the declaration instantiated at the arguments have no distinguishing witness. Non-trivial: the varied type is not a primitive and the twins' texts differ; distinct by module text".into();
    out.assumptions = vec!["equivalence is decided by witness search (no witness = inconclusive, counted), never by comparing normal forms alone".into()];
    crate::e2::regression(ctx, "C14", &known, &mut out);
    let rounds = if ctx.thorough() { 5 } else { 1 };
    let mut distinct = HashSet::new();
    for round in 0..rounds {
        let base = gen_modules(ctx, &profile_presentations(), 16 * 9, 0xC14 + round as u64 * 7919);
        let mut all = vec![];
        let mut groups: BTreeMap<String, Vec<(String, &'static str)>> = BTreeMap::new();
        for b in &base {
            for (kind, mut m) in twins(b) {
                m.name = format!("{}{}", b.name, &kind[..1]);
                groups.entry(b.name.clone()).or_default().push((m.name.clone(), kind));
                all.push(m);
            }
        }
        let corpus = build(ctx, all, &subjects::SlotCfg::default());
        out.bump("twin_modules", corpus.modules.len() as u64);
        out.bump("discarded_by_rustc", corpus.discarded_by_rustc as u64);
        let seed = ctx.seed;
        let results = for_each_module(ctx, &corpus, |p, s, _| c14_module(p, s, seed));
        let mut payload: BTreeMap<String, (usize, Value)> = BTreeMap::new();
        for (i, r) in results {
            out.evaluations += r.evaluations;
            for l in &r.labels {
                *out.labels.entry(l.clone()).or_default() += 1;
            }
            for (k, n) in &r.extra {
                out.bump(k, *n);
            }
            out.take_failures(&r.failures, &known);
            if let Some(pl) = r.payload {
                payload.insert(corpus.modules[i].module.name.clone(), (i, pl));
            }
        }
        for (bname, members) in &groups {
            let get = |kind: &str| members.iter().find(|(_, k)| *k == kind).and_then(|(n, _)| payload.get(n));
            // (g) `as` on a struct variant / on a container
            if let Some((pi, pd)) = get("plain") {
                let pp = &corpus.modules[*pi];
                let decl_at = |pl: &Value, m: &Module, idx: usize| -> Option<tsmodel::Decl> {
                    let t = m.insts.iter().find(|t| matches!(t, TyExpr::User(i, _) if *i == idx))?;
                    tsmodel::parse_module(pl[render::render_ty(t, m)].as_str()?).ok()?.decls.into_iter().next()
                };
                let p_env = env_of(pd);
                for (kind, idx) in [("variant-as", pick_variant(&pp.module).map(|x| x.0)), ("container-as", pick_container(&pp.module))] {
                    let (Some((ai, ad)), Some(idx)) = (get(kind), idx) else { continue };
                    let ap = &corpus.modules[*ai];
                    let (Some(pdecl), Some(adecl)) = (decl_at(pd, &pp.module, idx), decl_at(ad, &ap.module, idx + 1)) else { continue };
                    out.evaluations += 1;
                    out.bump(if kind == "variant-as" { "pairs_plain_vs_variant_as" } else { "pairs_plain_vs_container_as" }, 1);
                    let a_env = env_of(ad);
                    if let Some(d) = tsmodel::distinguish(&pdecl.body, &p_env, &adecl.body, &a_env, &[]) {
                        out.take_failures(&[json!({"signature": format!("{kind}-changes-meaning"), "message": format!("{} is a member of the {} only: `#[ts(as = \"U\")]` with a structurally equal U must give the binding of U.\nplain:   {}\nwith as: {}", d.value, if d.in_left { "plain presentation" } else { "`as` presentation" }, tsmodel::show(&pdecl.body), tsmodel::show(&adecl.body)), "case": case_of(ap, json!({"plain_source": render::render_module(&pp.module)}))})], &known);
                    } else {
                        out.bump("equivalences_without_distinguishing_witness", 1);
                        if distinct.insert(fnv(&format!("{kind}{bname}{}", render::render_module(&ap.module)))) {
                            out.distinct_nontrivial += 1;
                        }
                    }
                }
            }
            // (h) `as = "Option<T>"` on a newtype variant == the variant holding an Option<T>
            if let (Some((ai, ad)), Some((bi, bd))) = (get("zvariant-as-option"), get("yvariant-option")) {
                let (ap, bp) = (&corpus.modules[*ai], &corpus.modules[*bi]);
                if let Some((ei, _)) = pick_newtype_variant(&bp.module).or(pick_newtype_variant(&ap.module)).and(pick_newtype_variant_of_base(&ap.module, &bp.module)) {
                    let decl_text = |pl: &Value, m: &Module| -> Option<String> {
                        let t = m.insts.iter().find(|t| matches!(t, TyExpr::User(i, _) if *i == ei))?;
                        pl[render::render_ty(t, m)].as_str().map(|s| s.to_string())
                    };
                    if let (Some(x), Some(y)) = (decl_text(ad, &ap.module), decl_text(bd, &bp.module)) {
                        out.evaluations += 1;
                        out.bump("pairs_variant_as_option_vs_variant_option", 1);
                        if x != y {
                            out.take_failures(&[json!({"signature": "variant-as-changes-binding", "message": format!("`#[ts(as = \"Option<T>\")] V(T)` must give the binding of `V(Option<T>)`.\nwith as:   {x}\nreal type: {y}"), "case": case_of(ap, json!({"real_type_source": render::render_module(&bp.module)}))})], &known);
                        } else if distinct.insert(fnv(&format!("vopt{bname}{}", render::render_module(&ap.module)))) {
                            out.distinct_nontrivial += 1;
                        }
                    }
                }
            }
            let Some((ni, nd)) = get("byname") else { continue };
            let np = &corpus.modules[*ni];
            let Some((ti, fi)) = pick_field(&np.module) else { continue };
            let outer_label = render::render_ty(&TyExpr::User(ti, np.module.types[ti].params.iter().map(|_| TyExpr::Prim("i32")).collect()), &np.module);
            // the outer declaration: any registered instantiation of definition ti
            let outer_decl = |pl: &Value, m: &Module, ti: usize| -> Option<String> {
                m.insts.iter().find(|t| matches!(t, TyExpr::User(i, _) if *i == ti)).and_then(|t| pl[render::render_ty(t, m)].as_str().map(|s| s.to_string()))
            };
            let Some(n_decl) = outer_decl(nd, &np.module, ti) else { continue };
            let Some(n_parsed) = tsmodel::parse_module(&n_decl).ok().and_then(|m| m.decls.into_iter().next()) else { continue };
            let n_env = env_of(nd);
            let _ = (outer_label, fi);
            let mut nontrivial = false;
            // (b) inline
            if let Some((ii, id)) = get("inline") {
                let ip = &corpus.modules[*ii];
                if let Some(i_decl) = outer_decl(id, &ip.module, ti) {
                    if let Some(i_parsed) = tsmodel::parse_module(&i_decl).ok().and_then(|m| m.decls.into_iter().next()) {
                        out.evaluations += 1;
                        out.bump("pairs_byname_vs_inline", 1);
                        nontrivial |= i_decl != n_decl;
                        // compare at the parameters themselves (bound names are opaque on both sides)
                        let i_env = env_of(id);
                        if let Some(d) = tsmodel::distinguish(&n_parsed.body, &n_env, &i_parsed.body, &i_env, &[]) {
                            out.take_failures(&[json!({"signature": "inline-changes-meaning", "message": format!("{} is a member of the {} presentation only.\nby name: {n_decl}\ninline:  {i_decl}", d.value, if d.in_left { "by-name" } else { "inline" }), "case": case_of(ip, json!({"byname_source": render::render_module(&np.module)}))})], &known);
                        } else {
                            out.bump("equivalences_without_distinguishing_witness", 1);
                        }
                    }
                }
            }
            // (c) as
            if let Some((ai, ad)) = get("as") {
                let ap = &corpus.modules[*ai];
                if let Some(a_decl) = outer_decl(ad, &ap.module, ti + 1) {
                    out.evaluations += 1;
                    out.bump("pairs_byname_vs_as", 1);
                    nontrivial = true;
                    if a_decl != n_decl {
                        out.take_failures(&[json!({"signature": "as-changes-binding", "message": format!("`as = \"U\"` on a field of a structurally equal twin type must give the binding of U.\nby name: {n_decl}\nwith as: {a_decl}"), "case": case_of(ap, json!({"byname_source": render::render_module(&np.module)}))})], &known);
                    }
                }
            }
            // (c') the same with `#[ts(optional)]`
            if let (Some((oi, od)), Some((xi, xd))) = (get("optional"), get("xoptional-as")) {
                let (op, xp) = (&corpus.modules[*oi], &corpus.modules[*xi]);
                if let (Some(o_decl), Some(x_decl)) = (outer_decl(od, &op.module, ti), outer_decl(xd, &xp.module, ti + 1)) {
                    out.evaluations += 1;
                    out.bump("pairs_optional_vs_optional_as", 1);
                    if o_decl != x_decl {
                        out.take_failures(&[json!({"signature": "as-changes-binding", "message": format!("`#[ts(optional, as = \"Option<U>\")]` on a field of type Option<UTwin> must give the binding of Option<U>.\nby name: {o_decl}\nwith as: {x_decl}"), "case": case_of(xp, json!({"byname_source": render::render_module(&op.module)}))})], &known);
                    }
                }
            }
            // (d) flatten: witnesses of by-name with the field merged into the parent
            if let Some((fi2, fd)) = get("flatten") {
                let fp = &corpus.modules[*fi2];
                // (a self-referential outer type nests by-name shaped values of itself: the one-level merge below would not apply to them)
                let self_ref = np.module.types[ti].all_fields().iter().any(|f| matches!(f.ty, TyExpr::SelfRef(_)))
                    // (the merged field is found through its type: it has to be the only field of that type)
                    || match (&np.module.types[ti].body, pick_field(&np.module)) {
                        (typegen::Body::Named(fs), Some((_, fi))) => {
                            let mut mine = std::collections::BTreeSet::new();
                            typegen::model::collect_users(&fs[fi].ty, &mut mine);
                            fs.iter().enumerate().any(|(k, f)| {
                                let mut other = std::collections::BTreeSet::new();
                                typegen::model::collect_users(&f.ty, &mut other);
                                k != fi && !mine.is_disjoint(&other)
                            })
                        }
                        _ => false,
                    };
                if let (Some(f_decl), typegen::Body::Named(fs), false) = (outer_decl(fd, &fp.module, ti), &np.module.types[ti].body, self_ref) {
                    if let (Some(f_parsed), TyExpr::User(u, _)) = (tsmodel::parse_module(&f_decl).ok().and_then(|m| m.decls.into_iter().next()), &fs[fi].ty) {
                        let f_env = env_of(fd);
                        let u_ty = tsmodel::Ty::Ref(np.module.types[*u].ts_name(), vec![]);
                        out.bump("pairs_byname_vs_flatten", 1);
                        nontrivial = true;
                        let ws = tsmodel::witnesses(&n_parsed.body, &n_env, &tsmodel::Bounds { depth: 4, max_per_type: 64, max_optional_exhaustive: 3 });
                        for w in ws {
                            let Some(obj) = w.as_object() else { continue };
                            let keys: Vec<&String> = obj.iter().filter(|(_, v)| v.is_object() && tsmodel::member(v, &u_ty, &n_env)).map(|(k, _)| k).collect();
                            if keys.len() != 1 {
                                continue;
                            }
                            let mut merged = obj.clone();
                            let inner = merged.remove(keys[0]).unwrap();
                            let mut clash = false;
                            for (k, v) in inner.as_object().unwrap() {
                                if merged.insert(k.clone(), v.clone()).is_some() {
                                    clash = true;
                                }
                            }
                            if clash {
                                continue;
                            }
                            out.evaluations += 1;
                            let merged = Value::Object(merged);
                            if !tsmodel::member(&merged, &f_parsed.body, &f_env) {
                                out.take_failures(&[json!({"signature": "flatten-is-not-the-merged-object", "message": format!("{merged} (= a value of the by-name presentation with the field `{}` merged into its parent) is not a member of the flattened presentation.\nby name: {n_decl}\nflatten: {f_decl}", keys[0]), "case": case_of(fp, json!({"byname_source": render::render_module(&np.module)}))})], &known);
                                break;
                            }
                        }
                    }
                }
            }
            if nontrivial && distinct.insert(fnv(&format!("{bname}{}", render::render_module(&np.module)))) {
                out.distinct_nontrivial += 1;
            }
            if out.samples.len() < 3 && members.len() >= 3 {
                out.samples.push(json!({"presentations": members.iter().map(|(n, k)| json!({"kind": k, "outer_decl": payload.get(n).and_then(|(i, pl)| outer_decl(pl, &corpus.modules[*i].module, if *k == "as" { ti + 1 } else { ti }))})).collect::<Vec<_>>()}));
            }
        }
        if !out.violations.is_empty() {
            break;
        }
    }
    finish(ctx, "C14", out)
}
