//! The "subjects" workspace: every crate that is compiled against the repository under test.
//! All manifests are generated (from VERIF_REPO), nothing in it is committed.
use std::process::Command;

use crate::common::*;

pub const NSLOTS: usize = 16;

#[derive(Clone, Debug, PartialEq)]
pub struct SlotCfg {
    /// ts-rs cargo features for the slot crates
    pub features: Vec<String>,
    pub default_features: bool,
    /// extra dependencies lines for the slot crates (C12 feature crates)
    pub extra_deps: String,
    /// cargo features of the slot crate itself (`ext`: rt's generators for the third-party types)
    pub slot_features: Vec<String>,
}

impl SlotCfg {
    /// ts-rs with every `*-impl` feature whose crate builds offline, the crates themselves with
    /// their serde support as direct dependencies of the slot crates
    pub fn ext() -> SlotCfg {
        SlotCfg {
            features: ["no-serde-warnings", "chrono-impl", "bigdecimal-impl", "uuid-impl", "bson-uuid-impl", "bytes-impl", "url-impl", "indexmap-impl", "ordered-float-impl", "heapless-impl", "semver-impl", "smol_str-impl", "serde-json-impl"]
                .iter()
                .map(|s| s.to_string())
                .collect(),
            default_features: true,
            extra_deps: "chrono = { version = \"0.4\", features = [\"serde\"] }\nbigdecimal = { version = \"0.4\", features = [\"serde\"] }\nuuid = { version = \"1\", features = [\"serde\"] }\nbson = \"2\"\nbytes = { version = \"1\", features = [\"serde\"] }\nurl = { version = \"2\", features = [\"serde\"] }\nindexmap = { version = \"2\", features = [\"serde\"] }\nordered-float = { version = \"4\", features = [\"serde\"] }\nheapless = { version = \"0.8\", features = [\"serde\"] }\nsemver = { version = \"1\", features = [\"serde\"] }\nsmol_str = { version = \"0.3\", features = [\"serde\"] }\n".into(),
            slot_features: vec!["ext".into()],
        }
    }
}

impl Default for SlotCfg {
    fn default() -> Self {
        SlotCfg { features: vec!["no-serde-warnings".into()], default_features: true, extra_deps: String::new(), slot_features: vec![] }
    }
}

/// the configuration the slot crates were last set up with (recorded in replay files)
pub static CURRENT_CFG: std::sync::Mutex<Option<SlotCfg>> = std::sync::Mutex::new(None);

impl SlotCfg {
    pub fn to_json(&self) -> serde_json::Value {
        serde_json::json!({"features": self.features, "default_features": self.default_features, "ext": self.slot_features.iter().any(|f| f == "ext")})
    }
    pub fn from_json(v: &serde_json::Value) -> Option<SlotCfg> {
        let feats: Vec<String> = v["features"].as_array()?.iter().filter_map(|x| x.as_str().map(|s| s.to_string())).collect();
        let mut cfg = if v["ext"] == true { SlotCfg::ext() } else { SlotCfg::default() };
        cfg.features = feats;
        cfg.default_features = v["default_features"].as_bool().unwrap_or(true);
        Some(cfg)
    }
}

pub fn ensure(ctx: &Ctx, slot: &SlotCfg) {
    *CURRENT_CFG.lock().unwrap() = Some(slot.clone());
    let s = ctx.subjects();
    let repo = ctx.repo.display();
    let verif = ctx.verif.display();
    std::fs::create_dir_all(&s).unwrap();
    let mut members: Vec<String> = vec!["purefn".into(), "purefn_esm".into(), "harness".into()];
    for i in 0..NSLOTS {
        members.push(format!("slot{i:02}"));
    }
    write_if_changed(
        &s.join("Cargo.toml"),
        &format!(
            "[workspace]\nresolver = \"2\"\nmembers = [{}]\n\n[profile.dev]\ndebug = 0\nopt-level = 0\nincremental = false\n\n[profile.dev.package.purefn]\nopt-level = 2\n\n[profile.dev.package.purefn_esm]\nopt-level = 2\n\n[profile.test]\ndebug = 0\nopt-level = 1\nincremental = false\n\n[profile.dev.package.syn]\nopt-level = 2\n\n[profile.dev.package.proptest]\nopt-level = 2\n\n[profile.dev.package.swc_ecma_parser]\nopt-level = 1\n",
            members.iter().map(|m| format!("\"{m}\"")).collect::<Vec<_>>().join(", ")
        ),
    );
    if !s.join("Cargo.lock").exists() {
        std::fs::copy(ctx.repo.join("Cargo.lock"), s.join("Cargo.lock")).ok();
    }
    let case_rs = serde_case_rs(ctx);
    write_if_changed(
        &s.join(".cargo/config.toml"),
        &format!(
            "[net]\noffline = true\n\n[build]\nrustflags = [\"--cfg\", \"ts_rs_verif\", \"-Awarnings\"]\n\n[env]\nTS_RS_VERIF_MACROS_INCLUDE = \"{verif}/engine/macros_include/mod.rs\"\nVERIF_SERDE_CASE_RS = \"{case_rs}\"\n"
        ),
    );
    for (name, esm) in [("purefn", false), ("purefn_esm", true)] {
        let feats = if esm { "features = [\"import-esm\"]" } else { "features = []" };
        write_if_changed(
            &s.join(name).join("Cargo.toml"),
            &format!(
                "[package]\nname = \"{name}\"\nversion = \"0.1.0\"\nedition = \"2021\"\n\n[[bin]]\nname = \"{name}\"\npath = \"{verif}/engine/purefn/src/main.rs\"\n\n[features]\nesm = []\ndefault = [{}]\n\n[dependencies]\nts-rs = {{ path = \"{repo}/ts-rs\", {feats} }}\noracles = {{ path = \"{verif}/engine/oracles\" }}\nproptest = \"1\"\nserde_json = \"1\"\n",
                if esm { "\"esm\"" } else { "" }
            ),
        );
    }
    // in-process derive harness: a proc-macro package whose lib IS the repository's macro crate,
    // with the feature table and the dependencies of the repository's own manifest (so a change
    // to what a feature switches on is seen)
    let macros_manifest = std::fs::read_to_string(ctx.repo.join("macros/Cargo.toml")).unwrap_or_default();
    let section = |name: &str| -> String {
        let mut out = String::new();
        let mut inside = false;
        for line in macros_manifest.lines() {
            if line.trim_start().starts_with('[') {
                inside = line.trim() == format!("[{name}]");
                continue;
            }
            if inside && !line.trim().is_empty() {
                out.push_str(line);
                out.push('\n');
            }
        }
        out
    };
    let (mut features, mut deps) = (section("features"), section("dependencies"));
    if features.is_empty() || deps.is_empty() {
        features = "serde-compat = [\"termcolor\"]\nno-serde-warnings = []\n".into();
        deps = "proc-macro2 = \"1\"\nquote = \"1\"\nsyn = { version = \"2.0.28\", features = [\"full\", \"extra-traits\"] }\ntermcolor = { version = \"1\", optional = true }\n".into();
    }
    write_if_changed(
        &s.join("harness/Cargo.toml"),
        &format!(
            "[package]\nname = \"harness\"\nversion = \"0.1.0\"\nedition = \"2021\"\n\n[lib]\nproc-macro = true\npath = \"{repo}/macros/src/lib.rs\"\n\n[features]\n{features}\n[dependencies]\n{deps}\n[dev-dependencies]\nproptest = \"1\"\nserde_json = \"1\"\n"
        ),
    );
    ensure_slots(ctx, slot);
    // cargo-fuzz crate (its own workspace; built with nightly only in the thorough tiers)
    for (dir, esm) in [("fuzz", false), ("fuzz_esm", true)] {
        write_if_changed(
            &s.join(dir).join("Cargo.toml"),
            &format!(
                "[package]\nname = \"verif-{dir}\"\nversion = \"0.0.0\"\nedition = \"2021\"\npublish = false\n\n[package.metadata]\ncargo-fuzz = true\n\n[features]\nesm = []\ndefault = [{}]\n\n[dependencies]\nlibfuzzer-sys = \"0.4\"\nserde_json = \"1\"\nts-rs = {{ path = \"{repo}/ts-rs\", features = [{}] }}\noracles = {{ path = \"{verif}/engine/oracles\" }}\n\n[[bin]]\nname = \"import_path\"\npath = \"{verif}/engine/fuzz_targets/import_path.rs\"\ntest = false\ndoc = false\nbench = false\n\n[[bin]]\nname = \"merge\"\npath = \"{verif}/engine/fuzz_targets/merge.rs\"\ntest = false\ndoc = false\nbench = false\n\n[workspace]\n\n[profile.release]\ndebug = 0\n",
                if esm { "\"esm\"" } else { "" },
                if esm { "\"import-esm\"" } else { "" }
            ),
        );
        if !s.join(dir).join("Cargo.lock").exists() {
            std::fs::copy(ctx.repo.join("Cargo.lock"), s.join(dir).join("Cargo.lock")).ok();
        }
    }
}

/// serde_derive's own case conversion table (the C09 oracle), from the cargo registry
fn serde_case_rs(ctx: &Ctx) -> String {
    let lock = std::fs::read_to_string(ctx.subjects().join("Cargo.lock")).unwrap_or_default();
    let mut version = String::new();
    let mut lines = lock.lines();
    while let Some(l) = lines.next() {
        if l.trim() == "name = \"serde_derive\"" {
            if let Some(v) = lines.next() {
                version = v.trim().trim_start_matches("version = ").trim_matches('"').to_string();
            }
        }
    }
    let home = std::env::var("CARGO_HOME").unwrap_or_else(|_| format!("{}/.cargo", std::env::var("HOME").unwrap_or_else(|_| "/root".into())));
    if let Ok(rd) = std::fs::read_dir(format!("{home}/registry/src")) {
        for e in rd.flatten() {
            let p = e.path().join(format!("serde_derive-{version}/src/internals/case.rs"));
            if p.exists() {
                // inner doc comments (`//!`) cannot be include!d into a module: turn them into
                // plain comments; nothing else is changed
                let text = std::fs::read_to_string(&p).unwrap();
                let text: String = text
                    .lines()
                    .map(|l| if l.starts_with("//!") { format!("//{}\n", &l[3..]) } else { format!("{l}\n") })
                    .collect();
                let copy = ctx.subjects().join("generated/serde_case.rs");
                write_if_changed(&copy, &text);
                return copy.to_string_lossy().into_owned();
            }
        }
    }
    inconclusive(&format!("serde_derive-{version}/src/internals/case.rs not found in the cargo registry"))
}

pub fn ensure_slots(ctx: &Ctx, slot: &SlotCfg) {
    let s = ctx.subjects();
    let repo = ctx.repo.display();
    let before = std::fs::read_to_string(s.join("slot00/Cargo.toml")).unwrap_or_default();
    ensure_slots_inner(ctx, slot);
    // another set of dependencies: start again from the repository's lock file, so that every
    // crate the repository pins keeps its pinned version (cargo prunes what a configuration does
    // not use and would otherwise re-add it later at the newest cached version)
    if before != std::fs::read_to_string(s.join("slot00/Cargo.toml")).unwrap_or_default() {
        std::fs::copy(ctx.repo.join("Cargo.lock"), s.join("Cargo.lock")).ok();
    }
    let _ = repo;
}

fn ensure_slots_inner(ctx: &Ctx, slot: &SlotCfg) {
    let s = ctx.subjects();
    let repo = ctx.repo.display();
    for i in 0..NSLOTS {
        let name = format!("slot{i:02}");
        let feats = slot.features.iter().map(|f| format!("\"{f}\"")).collect::<Vec<_>>().join(", ");
        write_if_changed(
            &s.join(&name).join("Cargo.toml"),
            &format!(
                "[package]\nname = \"{name}\"\nversion = \"0.1.0\"\nedition = \"2021\"\n\n[features]\next = []\ndefault = [{}]\n\n[dependencies]\nts-rs = {{ path = \"{repo}/ts-rs\", default-features = {}, features = [{feats}] }}\nserde = {{ version = \"1\", features = [\"derive\", \"rc\"] }}\nserde_json = \"1\"\narbitrary = \"1\"\n{}\n",
                slot.slot_features.iter().map(|f| format!("\"{f}\"")).collect::<Vec<_>>().join(", "), slot.default_features, slot.extra_deps
            ),
        );
        let main = s.join(&name).join("src/main.rs");
        if !main.exists() {
            write_if_changed(&main, "fn main() {}\n");
        }
    }
}

/// `cargo build` (dev profile) of some packages of the subjects workspace.
pub fn cargo_build(ctx: &Ctx, packages: &[&str], extra: &[&str]) -> (bool, String, String) {
    let mut cmd = Command::new("cargo");
    cmd.current_dir(ctx.subjects()).arg("build").arg("--offline");
    for p in packages {
        cmd.arg("-p").arg(p);
    }
    cmd.args(extra);
    cmd.env("CARGO_NET_OFFLINE", "true");
    cmd.env_remove("RUSTFLAGS");
    run(&mut cmd)
}

pub fn bin_path(ctx: &Ctx, name: &str) -> std::path::PathBuf {
    ctx.subjects().join("target/debug").join(name)
}

/// the feature set each harness executable was *requested* with (the harness compares it with
/// what the build really switched on)
pub static HARNESS_REQUESTED: std::sync::Mutex<Vec<(std::path::PathBuf, bool, bool)>> = std::sync::Mutex::new(Vec::new());

/// Build the in-process derive harness (a test binary) for a feature set; returns the executable.
pub fn build_harness(ctx: &Ctx, serde_compat: bool, no_warnings: bool) -> std::path::PathBuf {
    let exe = build_harness_inner(ctx, serde_compat, no_warnings);
    HARNESS_REQUESTED.lock().unwrap().push((exe.clone(), serde_compat, no_warnings));
    exe
}

fn build_harness_inner(ctx: &Ctx, serde_compat: bool, no_warnings: bool) -> std::path::PathBuf {
    let mut cmd = Command::new("cargo");
    cmd.current_dir(ctx.subjects())
        .args(["test", "--offline", "-p", "harness", "--no-run", "--message-format=json", "--no-default-features"]);
    let mut feats = vec![];
    if serde_compat {
        feats.push("serde-compat");
    }
    if no_warnings {
        feats.push("no-serde-warnings");
    }
    if !feats.is_empty() {
        cmd.arg("--features").arg(feats.join(","));
    }
    cmd.env("CARGO_NET_OFFLINE", "true").env_remove("RUSTFLAGS");
    let (ok, out, err) = run(&mut cmd);
    let mut exe = None;
    let mut rendered = String::new();
    for line in out.lines() {
        if let Ok(v) = serde_json::from_str::<serde_json::Value>(line) {
            if v["reason"] == "compiler-artifact" && v["target"]["name"] == "harness" && v["profile"]["test"] == true {
                if let Some(e) = v["executable"].as_str() {
                    exe = Some(std::path::PathBuf::from(e));
                }
            }
            if v["reason"] == "compiler-message" && v["message"]["level"] == "error" {
                rendered.push_str(v["message"]["rendered"].as_str().unwrap_or(""));
            }
        }
    }
    match exe {
        Some(e) if ok => e,
        _ => inconclusive(&format!(
            "building the derive harness failed (does /repo/macros still compile with the cfg(ts_rs_verif) include?):\n{}\n{}",
            rendered.chars().take(3000).collect::<String>(),
            err.chars().rev().take(1500).collect::<String>().chars().rev().collect::<String>()
        )),
    }
}

/// Run a libFuzzer campaign (cargo-fuzz, nightly) on one of the hook targets. Returns the
/// violation json printed by the target, if any. `Err` = infrastructure trouble.
pub fn run_fuzz(ctx: &Ctx, dir: &str, target: &str, runs: u64) -> Result<(Option<serde_json::Value>, u64), String> {
    let fuzz_dir = ctx.subjects().join(dir);
    let work = ctx.work.join(format!("fuzz-{dir}-{target}"));
    std::fs::remove_dir_all(&work).ok();
    let corpus = work.join("corpus");
    std::fs::create_dir_all(&corpus).map_err(|e| e.to_string())?;
    std::fs::create_dir_all(work.join("cwd/p/q")).map_err(|e| e.to_string())?;
    // a few seed inputs: fixed byte patterns (the decoders accept anything)
    for (i, pat) in [[0u8; 24], [0x55; 24], [0xA7; 24]].iter().enumerate() {
        std::fs::write(corpus.join(format!("seed{i}")), pat).ok();
    }
    let mut cmd = Command::new("cargo");
    cmd.current_dir(work.join("cwd/p/q"))
        .args(["+nightly", "fuzz", "run", "--fuzz-dir"])
        .arg(&fuzz_dir)
        .arg(target)
        .arg(&corpus)
        .arg("--")
        .arg(format!("-runs={runs}"))
        .arg(format!("-seed={}", ctx.seed.max(1)))
        .arg("-max_len=96")
        .arg("-len_control=0")
        .arg(format!("-artifact_prefix={}/", work.display()))
        .env("CARGO_NET_OFFLINE", "true")
        .env("RUSTFLAGS", "--cfg ts_rs_verif")
        .env("TS_RS_VERIF_MACROS_INCLUDE", ctx.verif.join("engine/macros_include/mod.rs"));
    let (ok, out, err) = run(&mut cmd);
    let all = format!("{out}\n{err}");
    let execs = all
        .lines()
        .rev()
        .find_map(|l| l.strip_prefix("Done ").and_then(|r| r.split_whitespace().next()).and_then(|n| n.parse::<u64>().ok()))
        .or_else(|| all.lines().rev().find_map(|l| l.strip_prefix("#").and_then(|r| r.split_whitespace().next()).and_then(|n| n.parse::<u64>().ok())))
        .unwrap_or(0);
    if let Some(line) = all.lines().find(|l| l.contains("VERIF-FUZZ-VIOLATION ")) {
        let j = line.split("VERIF-FUZZ-VIOLATION ").nth(1).unwrap_or("{}");
        let v = serde_json::from_str(j).unwrap_or_else(|_| serde_json::json!({"signature": "fuzz-violation", "message": line}));
        return Ok((Some(v), execs));
    }
    if !ok {
        if all.contains("panicked at") || all.contains("ERROR: libFuzzer: deadly signal") {
            return Ok((Some(serde_json::json!({"signature": "fuzz-crash", "message": all.chars().rev().take(2000).collect::<String>().chars().rev().collect::<String>()})), execs));
        }
        return Err(all.chars().rev().take(2000).collect::<String>().chars().rev().collect::<String>());
    }
    Ok((None, execs))
}
