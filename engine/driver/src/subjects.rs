//! The "subjects" workspace: every crate that is compiled against the repository under test.
//! All manifests are generated (from VERIF_REPO), nothing in it is committed.
use std::process::Command;

use crate::common::*;

pub const NSLOTS: usize = 16;

#[derive(Clone, Debug, PartialEq)]
pub struct SlotCfg {
    /// ts-rs cargo features for the slot crates
    pub features: Vec<String>,
    pub default_features: bool,
    /// extra dependencies lines for the slot crates (C12 feature crates)
    pub extra_deps: String,
}

impl Default for SlotCfg {
    fn default() -> Self {
        SlotCfg { features: vec![], default_features: true, extra_deps: String::new() }
    }
}

pub fn ensure(ctx: &Ctx, slot: &SlotCfg) {
    let s = ctx.subjects();
    let repo = ctx.repo.display();
    let verif = ctx.verif.display();
    std::fs::create_dir_all(&s).unwrap();
    let mut members: Vec<String> = vec!["purefn".into(), "purefn_esm".into(), "harness".into()];
    for i in 0..NSLOTS {
        members.push(format!("slot{i:02}"));
    }
    write_if_changed(
        &s.join("Cargo.toml"),
        &format!(
            "[workspace]\nresolver = \"2\"\nmembers = [{}]\n\n[profile.dev]\ndebug = 0\nopt-level = 0\nincremental = false\n\n[profile.dev.package.purefn]\nopt-level = 2\n\n[profile.dev.package.purefn_esm]\nopt-level = 2\n\n[profile.test]\ndebug = 0\nopt-level = 1\nincremental = false\n\n[profile.dev.package.syn]\nopt-level = 2\n\n[profile.dev.package.proptest]\nopt-level = 2\n\n[profile.dev.package.swc_ecma_parser]\nopt-level = 1\n",
            members.iter().map(|m| format!("\"{m}\"")).collect::<Vec<_>>().join(", ")
        ),
    );
    write_if_changed(
        &s.join(".cargo/config.toml"),
        &format!(
            "[net]\noffline = true\n\n[build]\nrustflags = [\"--cfg\", \"ts_rs_verif\", \"-Awarnings\"]\n\n[env]\nTS_RS_VERIF_MACROS_INCLUDE = \"{verif}/engine/macros_include/mod.rs\"\n"
        ),
    );
    if !s.join("Cargo.lock").exists() {
        std::fs::copy(ctx.repo.join("Cargo.lock"), s.join("Cargo.lock")).ok();
    }
    for (name, esm) in [("purefn", false), ("purefn_esm", true)] {
        let feats = if esm { "features = [\"import-esm\"]" } else { "features = []" };
        write_if_changed(
            &s.join(name).join("Cargo.toml"),
            &format!(
                "[package]\nname = \"{name}\"\nversion = \"0.1.0\"\nedition = \"2021\"\n\n[[bin]]\nname = \"{name}\"\npath = \"{verif}/engine/purefn/src/main.rs\"\n\n[features]\nesm = []\ndefault = [{}]\n\n[dependencies]\nts-rs = {{ path = \"{repo}/ts-rs\", {feats} }}\noracles = {{ path = \"{verif}/engine/oracles\" }}\nproptest = \"1\"\nserde_json = \"1\"\n",
                if esm { "\"esm\"" } else { "" }
            ),
        );
    }
    // in-process derive harness: a proc-macro package whose lib IS the repository's macro crate
    write_if_changed(
        &s.join("harness/Cargo.toml"),
        &format!(
            "[package]\nname = \"harness\"\nversion = \"0.1.0\"\nedition = \"2021\"\n\n[lib]\nproc-macro = true\npath = \"{repo}/macros/src/lib.rs\"\n\n[features]\nserde-compat = [\"termcolor\"]\nno-serde-warnings = []\ndefault = [\"serde-compat\", \"no-serde-warnings\"]\n\n[dependencies]\nproc-macro2 = \"1\"\nquote = \"1\"\nsyn = {{ version = \"2.0.28\", features = [\"full\", \"extra-traits\"] }}\ntermcolor = {{ version = \"1\", optional = true }}\n\n[dev-dependencies]\nproptest = \"1\"\nserde_json = \"1\"\n"
        ),
    );
    ensure_slots(ctx, slot);
}

pub fn ensure_slots(ctx: &Ctx, slot: &SlotCfg) {
    let s = ctx.subjects();
    let repo = ctx.repo.display();
    for i in 0..NSLOTS {
        let name = format!("slot{i:02}");
        let feats = slot.features.iter().map(|f| format!("\"{f}\"")).collect::<Vec<_>>().join(", ");
        write_if_changed(
            &s.join(&name).join("Cargo.toml"),
            &format!(
                "[package]\nname = \"{name}\"\nversion = \"0.1.0\"\nedition = \"2021\"\n\n[dependencies]\nts-rs = {{ path = \"{repo}/ts-rs\", default-features = {}, features = [{feats}] }}\nserde = {{ version = \"1\", features = [\"derive\", \"rc\"] }}\nserde_json = \"1\"\narbitrary = \"1\"\n{}\n",
                slot.default_features, slot.extra_deps
            ),
        );
        let main = s.join(&name).join("src/main.rs");
        if !main.exists() {
            write_if_changed(&main, "fn main() {}\n");
        }
    }
}

/// `cargo build` (dev profile) of some packages of the subjects workspace.
pub fn cargo_build(ctx: &Ctx, packages: &[&str], extra: &[&str]) -> (bool, String, String) {
    let mut cmd = Command::new("cargo");
    cmd.current_dir(ctx.subjects()).arg("build").arg("--offline");
    for p in packages {
        cmd.arg("-p").arg(p);
    }
    cmd.args(extra);
    cmd.env("CARGO_NET_OFFLINE", "true");
    cmd.env_remove("RUSTFLAGS");
    run(&mut cmd)
}

pub fn bin_path(ctx: &Ctx, name: &str) -> std::path::PathBuf {
    ctx.subjects().join("target/debug").join(name)
}
