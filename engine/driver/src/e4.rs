//! E4: pure-function checks run by the `purefn` subject binary.
use std::process::Command;

use serde_json::Value;

use crate::{common::*, subjects};

fn run_purefn(ctx: &Ctx, bin: &str, args: &[String]) -> Value {
    let report = ctx.work.join(format!("{bin}-report-{}.json", std::process::id()));
    std::fs::remove_file(&report).ok();
    let mut cmd = Command::new(subjects::bin_path(ctx, bin));
    let mut full: Vec<String> = args.to_vec();
    // the report path goes after the positional args (mode tier seed) or (replay file)
    let insert_at = if args[0] == "replay" { 2 } else { 3 };
    full.insert(insert_at, report.to_string_lossy().into_owned());
    cmd.args(&full).env("VERIF_WORK", &ctx.work);
    let (ok, _so, se) = run(&mut cmd);
    let content = std::fs::read_to_string(&report).unwrap_or_default();
    std::fs::remove_file(&report).ok();
    if !ok || content.is_empty() {
        inconclusive(&format!("{bin} {:?} did not produce a report: {}", args, se.chars().take(2000).collect::<String>()));
    }
    serde_json::from_str(&content).unwrap_or_else(|e| inconclusive(&format!("bad report: {e}")))
}

fn build_purefn(ctx: &Ctx, pkgs: &[&str]) {
    subjects::ensure(ctx, &subjects::SlotCfg::default());
    for p in pkgs {
        let (ok, _o, e) = subjects::cargo_build(ctx, &[p], &[]);
        if !ok {
            inconclusive(&format!("building {p} failed:\n{}", e.chars().rev().take(3000).collect::<String>().chars().rev().collect::<String>()));
        }
    }
}

fn absorb(out: &mut Outcome, rep: &Value, known: &[Known]) {
    out.evaluations += rep["evaluations"].as_u64().unwrap_or(0);
    out.distinct_nontrivial += rep["nontrivial"].as_u64().unwrap_or(0);
    out.bump("excluded_known", rep["excluded_known"].as_u64().unwrap_or(0));
    out.bump("exhaustively_enumerated", rep["exhaustive_part"].as_u64().unwrap_or(0));
    out.add_labels(&rep["labels"]);
    if let Some(s) = rep["samples"].as_array() {
        for x in s {
            if out.samples.len() < 10 {
                out.samples.push(x.clone());
            }
        }
    }
    out.take_failures(rep["failures"].as_array().map(|v| v.as_slice()).unwrap_or(&[]), known);
}

/// replay the files of the known-findings list (and replays/<ID>/keep-*.json)
fn regression(ctx: &Ctx, property: &str, known: &[Known], out: &mut Outcome, bin_for: &dyn Fn(&Value) -> (String, Vec<String>)) {
    let mut files: Vec<(std::path::PathBuf, Option<&Known>)> = vec![];
    for k in known {
        if let Some(r) = &k.replay {
            files.push((ctx.verif.join(r), Some(k)));
        }
    }
    if let Ok(rd) = std::fs::read_dir(ctx.verif.join("replays").join(property)) {
        for e in rd.flatten() {
            let name = e.file_name().to_string_lossy().into_owned();
            if name.starts_with("keep-") {
                files.push((e.path(), None));
            }
        }
    }
    for (f, k) in files {
        let Ok(text) = std::fs::read_to_string(&f) else { continue };
        let Ok(case) = serde_json::from_str::<Value>(&text) else { continue };
        let inner = if case["case"].is_object() { case["case"].clone() } else { case.clone() };
        let tmp = ctx.work.join(format!("replay-case-{}.json", std::process::id()));
        std::fs::write(&tmp, inner.to_string()).unwrap();
        let (bin, mut extra) = bin_for(&inner);
        let mut args = vec!["replay".to_string(), tmp.to_string_lossy().into_owned()];
        args.append(&mut extra);
        let rep = run_purefn(ctx, &bin, &args);
        std::fs::remove_file(&tmp).ok();
        out.bump("replays_run", 1);
        let fails = rep["failures"].as_array().cloned().unwrap_or_default();
        match k {
            Some(k) if k.status == "known" => {
                if !fails.is_empty() {
                    out.known_reproduced.insert(k.signature.clone(), k.what.clone());
                }
            }
            _ => {
                // fixed findings and kept regressions must pass
                for fl in fails {
                    let sig = format!("regression-{}", fl["signature"].as_str().unwrap_or("x"));
                    out.violations.push((sig, fl));
                }
            }
        }
    }
}

pub fn replay_cmd(ctx: &Ctx, property: &str, file: &str) -> ! {
    lock_subjects(ctx);
    build_purefn(ctx, &["purefn", "purefn_esm"]);
    let text = std::fs::read_to_string(file).unwrap_or_else(|e| inconclusive(&format!("cannot read {file}: {e}")));
    let case: Value = serde_json::from_str(&text).unwrap_or_else(|e| inconclusive(&format!("bad replay: {e}")));
    let inner = if case["case"].is_object() { case["case"].clone() } else { case.clone() };
    let tmp = ctx.work.join(format!("replay-case-{}.json", std::process::id()));
    std::fs::write(&tmp, inner.to_string()).unwrap();
    let esm = inner["esm"].as_bool().unwrap_or(false);
    let mut args = vec!["replay".to_string(), tmp.to_string_lossy().into_owned()];
    if esm {
        args.push("--esm".into());
    }
    let rep = run_purefn(ctx, if esm { "purefn_esm" } else { "purefn" }, &args);
    std::fs::remove_file(&tmp).ok();
    let fails = rep["failures"].as_array().cloned().unwrap_or_default();
    if fails.is_empty() {
        println!("REPLAY-PASS property={property} file={file}");
        std::process::exit(0);
    }
    println!("{}", serde_json::to_string_pretty(&fails[0]).unwrap());
    println!("VIOLATION property={property} replay={file}");
    std::process::exit(1);
}

pub fn c08(ctx: &Ctx) -> ! {
    lock_subjects(ctx);
    build_purefn(ctx, &["purefn", "purefn_esm"]);
    let known = load_known(ctx, "C08");
    let mut out = Outcome::default();
    out.rule = "pairs (importing file, imported file) = base x directory lists over {a,b,a.b,ts,x.ts,foo.d,.,..} (exhaustive up to depth 2 quick / 3 thorough) x file names {A.ts,b.ts,ts.ts,x.d.ts,a.b.ts,x.ts.ts,schema.v2,noext}, 5 base spellings (relative, dot segments, absolute, above cwd, at the root) incl. mixed bases, with and without import-esm; plus proptest-generated longer/odd components. Oracle: lexical reference resolver (oracles::paths). Non-trivial: directories differ, or a dot segment, or a dotted directory component; distinct by (from,to) string".into();
    out.assumptions = vec![
        "POSIX separators only; Windows backslash replacement is not reachable on this platform".into(),
        "file names not ending in .ts are only required to be spelled by the specifier (TypeScript itself cannot resolve them)".into(),
    ];
    regression(ctx, "C08", &known, &mut out, &|case| {
        if case["esm"].as_bool().unwrap_or(false) {
            ("purefn_esm".into(), vec!["--esm".into()])
        } else {
            ("purefn".into(), vec![])
        }
    });
    let exclude: Vec<String> = known.iter().filter(|k| k.status == "known").map(|k| k.signature.clone()).collect();
    for (bin, esm) in [("purefn", false), ("purefn_esm", true)] {
        let mut args = vec!["c08".to_string(), ctx.tier.clone(), ctx.seed.to_string()];
        if esm {
            args.push("--esm".into());
        }
        args.push("--exclude".into());
        args.push(exclude.join(","));
        let rep = run_purefn(ctx, bin, &args);
        absorb(&mut out, &rep, &known);
        out.bump(if esm { "evaluations_import_esm" } else { "evaluations_default" }, rep["evaluations"].as_u64().unwrap_or(0));
    }
    // coverage-guided campaign on the same oracle (thorough tier; quick runs a short one)
    let runs = if ctx.thorough() { 2_000_000 } else { 150_000 };
    for dir in ["fuzz", "fuzz_esm"] {
        match subjects::run_fuzz(ctx, dir, "import_path", runs) {
            Ok((v, execs)) => {
                out.evaluations += execs;
                out.bump("libfuzzer_executions", execs);
                if let Some(v) = v {
                    out.take_failures(&[v], &known);
                }
            }
            Err(e) => inconclusive(&format!("cargo fuzz ({dir}/import_path) failed: {e}")),
        }
        if !ctx.thorough() {
            break;
        }
    }
    out.exhaustive = Some(false);
    finish(ctx, "C08", out)
}

/// text-level part of C05 (used by the C05 check)
pub fn c05_text(ctx: &Ctx, out: &mut Outcome, known: &[Known]) {
    build_purefn(ctx, &["purefn"]);
    regression(ctx, "C05", known, out, &|_| ("purefn".into(), vec![]));
    let exclude: Vec<String> = known.iter().filter(|k| k.status == "known").map(|k| k.signature.clone()).collect();
    let args = vec!["c05text".to_string(), ctx.tier.clone(), ctx.seed.to_string(), "--exclude".into(), exclude.join(",")];
    let rep = run_purefn(ctx, "purefn", &args);
    absorb(out, &rep, known);
    out.bump("text_level_histories", rep["evaluations"].as_u64().unwrap_or(0));
    let runs = if ctx.thorough() { 300_000 } else { 6_000 };
    match subjects::run_fuzz(ctx, "fuzz", "merge", runs) {
        Ok((v, execs)) => {
            out.evaluations += execs;
            out.bump("libfuzzer_executions", execs);
            if let Some(v) = v {
                out.take_failures(&[v], known);
            }
        }
        Err(e) => inconclusive(&format!("cargo fuzz (merge) failed: {e}")),
    }
}
