//! Value generators for the feature-gated third-party types ts-rs supports (C12). Only compiled
//! into slot crates built with the `ext` feature (which also depend on these crates).
use super::{Gen, Tape};

impl Gen for chrono::NaiveDate {
    fn gen(u: &mut Tape, _d: u32) -> Self {
        let y = [1, 1969, 1970, 2000, 2024, 9999, -44][u.choose(7)];
        chrono::NaiveDate::from_ymd_opt(y, 1 + u.choose(12) as u32, 1 + u.choose(28) as u32).unwrap()
    }
}
impl Gen for chrono::NaiveTime {
    fn gen(u: &mut Tape, _d: u32) -> Self {
        chrono::NaiveTime::from_hms_nano_opt(u.choose(24) as u32, u.choose(60) as u32, u.choose(60) as u32, [0, 500_000_000, 123_456_789][u.choose(3)]).unwrap()
    }
}
impl Gen for chrono::NaiveDateTime {
    fn gen(u: &mut Tape, d: u32) -> Self {
        chrono::NaiveDateTime::new(Gen::gen(u, d), Gen::gen(u, d))
    }
}
impl Gen for chrono::Month {
    fn gen(u: &mut Tape, _d: u32) -> Self {
        use chrono::Month::*;
        [January, February, March, April, May, June, July, August, September, October, November, December][u.choose(12)]
    }
}
impl Gen for chrono::Weekday {
    fn gen(u: &mut Tape, _d: u32) -> Self {
        use chrono::Weekday::*;
        [Mon, Tue, Wed, Thu, Fri, Sat, Sun][u.choose(7)]
    }
}
impl Gen for chrono::DateTime<chrono::Utc> {
    fn gen(u: &mut Tape, d: u32) -> Self {
        let n: chrono::NaiveDateTime = Gen::gen(u, d);
        n.and_utc()
    }
}
impl Gen for chrono::DateTime<chrono::FixedOffset> {
    fn gen(u: &mut Tape, d: u32) -> Self {
        let n: chrono::NaiveDateTime = Gen::gen(u, d);
        let off = chrono::FixedOffset::east_opt([0, 3600, -5 * 3600, 5 * 3600 + 1800][u.choose(4)]).unwrap();
        n.and_utc().with_timezone(&off)
    }
}
impl Gen for bigdecimal::BigDecimal {
    fn gen(u: &mut Tape, d: u32) -> Self {
        bigdecimal::BigDecimal::new(i64::gen(u, d).into(), [0i64, 2, -3, 10][u.choose(4)])
    }
}
impl Gen for uuid::Uuid {
    fn gen(u: &mut Tape, _d: u32) -> Self {
        uuid::Uuid::from_u128(((u.u64() as u128) << 64) | u.u64() as u128)
    }
}
impl Gen for url::Url {
    fn gen(u: &mut Tape, _d: u32) -> Self {
        url::Url::parse(["http://a.b/", "https://user:pw@example.com:8080/p/a/t/h?query=1#frag", "file:///tmp/x", "mailto:a@b.c", "http://ünï.example/中?q=\"x\""][u.choose(5)]).unwrap()
    }
}
impl Gen for semver::Version {
    fn gen(u: &mut Tape, _d: u32) -> Self {
        let mut v = semver::Version::new(u.choose(3) as u64, u.u64() % 100, u.choose(10) as u64);
        if u.choose(3) == 0 {
            v.pre = semver::Prerelease::new("alpha.1").unwrap();
        }
        if u.choose(3) == 0 {
            v.build = semver::BuildMetadata::new("build.5").unwrap();
        }
        v
    }
}
impl Gen for smol_str::SmolStr {
    fn gen(u: &mut Tape, d: u32) -> Self {
        let s: String = Gen::gen(u, d);
        if u.choose(4) == 0 {
            smol_str::SmolStr::new("a string longer than the twenty-three bytes that are stored inline")
        } else {
            smol_str::SmolStr::new(s)
        }
    }
}
impl Gen for ordered_float::OrderedFloat<f64> {
    fn gen(u: &mut Tape, d: u32) -> Self {
        ordered_float::OrderedFloat(Gen::gen(u, d))
    }
}
impl Gen for ordered_float::OrderedFloat<f32> {
    fn gen(u: &mut Tape, d: u32) -> Self {
        ordered_float::OrderedFloat(Gen::gen(u, d))
    }
}
impl Gen for bson::oid::ObjectId {
    fn gen(u: &mut Tape, _d: u32) -> Self {
        let mut b = [0u8; 12];
        b.iter_mut().for_each(|x| *x = u.byte());
        bson::oid::ObjectId::from_bytes(b)
    }
}
impl Gen for bson::Uuid {
    fn gen(u: &mut Tape, _d: u32) -> Self {
        let mut b = [0u8; 16];
        b.iter_mut().for_each(|x| *x = u.byte());
        bson::Uuid::from_bytes(b)
    }
}
impl<T: Gen + std::hash::Hash + Eq> Gen for indexmap::IndexSet<T> {
    fn gen(u: &mut Tape, d: u32) -> Self {
        let n = if d >= super::MAX_DEPTH { 0 } else { u.choose(4) };
        (0..n).map(|_| T::gen(u, d + 1)).collect()
    }
}
impl<K: Gen + std::hash::Hash + Eq, V: Gen> Gen for indexmap::IndexMap<K, V> {
    fn gen(u: &mut Tape, d: u32) -> Self {
        let n = if d >= super::MAX_DEPTH { 0 } else { u.choose(4) };
        (0..n).map(|_| (K::gen(u, d + 1), V::gen(u, d + 1))).collect()
    }
}
impl<T: Gen, const N: usize> Gen for heapless::Vec<T, N> {
    fn gen(u: &mut Tape, d: u32) -> Self {
        let n = if d >= super::MAX_DEPTH { 0 } else { u.choose(N + 1) };
        let mut v = heapless::Vec::new();
        for _ in 0..n {
            let _ = v.push(T::gen(u, d + 1));
        }
        v
    }
}
impl Gen for bytes::Bytes {
    fn gen(u: &mut Tape, _d: u32) -> Self {
        let n = u.choose(5);
        bytes::Bytes::from((0..n).map(|_| u.byte()).collect::<Vec<u8>>())
    }
}
impl Gen for bytes::BytesMut {
    fn gen(u: &mut Tape, d: u32) -> Self {
        let b: bytes::Bytes = Gen::gen(u, d);
        bytes::BytesMut::from(&b[..])
    }
}
impl Gen for serde_json::Number {
    fn gen(u: &mut Tape, d: u32) -> Self {
        match u.choose(3) {
            0 => serde_json::Number::from(i64::gen(u, d)),
            1 => serde_json::Number::from(u64::gen(u, d)),
            _ => serde_json::Number::from_f64(f64::gen(u, d)).unwrap_or(serde_json::Number::from(0)),
        }
    }
}
impl Gen for serde_json::Value {
    fn gen(u: &mut Tape, d: u32) -> Self {
        use serde_json::Value;
        let leaf = d >= super::MAX_DEPTH;
        match u.choose(if leaf { 4 } else { 6 }) {
            0 => Value::Null,
            1 => Value::Bool(Gen::gen(u, d)),
            2 => Value::Number(Gen::gen(u, d)),
            3 => Value::String(Gen::gen(u, d)),
            4 => Value::Array((0..u.choose(3)).map(|_| Value::gen(u, d + 1)).collect()),
            _ => Value::Object((0..u.choose(3)).map(|_| (String::gen(u, d), Value::gen(u, d + 1))).collect()),
        }
    }
}
impl<V: Gen> Gen for serde_json::Map<String, V>
where
    serde_json::Map<String, V>: FromIterator<(String, V)>,
{
    fn gen(u: &mut Tape, d: u32) -> Self {
        let n = if d >= super::MAX_DEPTH { 0 } else { u.choose(3) };
        (0..n).map(|_| (String::gen(u, d), V::gen(u, d + 1))).collect()
    }
}
