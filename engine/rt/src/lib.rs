//! Included as `mod rt` into every generated slot crate: value generators (`Gen`), the per-type
//! registry and the line-protocol server through which the driver interrogates compiled types.
//! No oracle lives here: this code only calls ts-rs / serde and reports what it observed.
#![allow(dead_code, unused)]

use std::{
    collections::{BTreeMap, BTreeSet, HashMap, HashSet},
    io::{BufRead, Write},
    panic::{catch_unwind, AssertUnwindSafe},
    path::PathBuf,
};

use serde::{de::DeserializeOwned, Serialize};
use serde_json::{json, Value};
use ts_rs::TS;

// ---------------------------------------------------------------------------------------------
// byte tape
// ---------------------------------------------------------------------------------------------

pub struct Tape<'a> {
    bytes: &'a [u8],
    pos: usize,
}

impl<'a> Tape<'a> {
    pub fn new(bytes: &'a [u8]) -> Self {
        Tape { bytes, pos: 0 }
    }
    pub fn byte(&mut self) -> u8 {
        let b = self.bytes.get(self.pos).copied().unwrap_or(0);
        self.pos += 1;
        b
    }
    /// uniform-ish choice in 0..n; an exhausted tape always answers 0 (the simplest choice)
    pub fn choose(&mut self, n: usize) -> usize {
        if n <= 1 {
            return 0;
        }
        (self.byte() as usize * n) >> 8
    }
    pub fn u64(&mut self) -> u64 {
        let mut v = 0u64;
        for _ in 0..8 {
            v = (v << 8) | self.byte() as u64;
        }
        v
    }
}

pub const MAX_DEPTH: u32 = 4;

pub trait Gen: Sized {
    fn gen(u: &mut Tape, depth: u32) -> Self;
}

macro_rules! gen_int {
    ($($t:ty),*) => { $(
        impl Gen for $t {
            fn gen(u: &mut Tape, _d: u32) -> Self {
                match u.choose(8) {
                    0 => 0 as $t,
                    1 => 1 as $t,
                    2 => <$t>::MAX,
                    3 => <$t>::MIN,
                    _ => u.u64() as $t,
                }
            }
        }
    )* };
}
gen_int!(u8, i8, u16, i16, u32, i32, u64, i64, usize, isize);

// serde_json::Value cannot hold integers beyond the 64 bit range, keep 128 bit values inside it
impl Gen for u128 {
    fn gen(u: &mut Tape, d: u32) -> Self {
        u64::gen(u, d) as u128
    }
}
impl Gen for i128 {
    fn gen(u: &mut Tape, d: u32) -> Self {
        i64::gen(u, d) as i128
    }
}

macro_rules! gen_nonzero {
    ($($t:ty => $p:ty),*) => { $(
        impl Gen for $t {
            fn gen(u: &mut Tape, d: u32) -> Self {
                <$t>::new(<$p as Gen>::gen(u, d)).unwrap_or(<$t>::new(1 as $p).unwrap())
            }
        }
    )* };
}
gen_nonzero!(std::num::NonZeroU8 => u8, std::num::NonZeroI8 => i8, std::num::NonZeroU16 => u16, std::num::NonZeroI16 => i16,
    std::num::NonZeroU32 => u32, std::num::NonZeroI32 => i32, std::num::NonZeroU64 => u64, std::num::NonZeroI64 => i64,
    std::num::NonZeroUsize => usize, std::num::NonZeroIsize => isize, std::num::NonZeroU128 => u128, std::num::NonZeroI128 => i128);

impl Gen for f64 {
    fn gen(u: &mut Tape, _d: u32) -> Self {
        // finite only: JSON has no spelling for NaN / infinity
        match u.choose(6) {
            0 => 0.0,
            1 => 1.0,
            2 => -2.5,
            3 => 1.0e10,
            _ => (u.byte() as f64 - 128.0) / 8.0,
        }
    }
}
impl Gen for f32 {
    fn gen(u: &mut Tape, d: u32) -> Self {
        match u.choose(4) {
            0 => 0.0,
            1 => 1.5,
            _ => (u.byte() as f32 - 128.0) / 8.0,
        }
    }
}
impl Gen for bool {
    fn gen(u: &mut Tape, _d: u32) -> Self {
        u.choose(2) == 1
    }
}
impl Gen for char {
    fn gen(u: &mut Tape, _d: u32) -> Self {
        ['a', 'Z', '7', 'ß', '中', '"', ' '][u.choose(7)]
    }
}
impl Gen for String {
    fn gen(u: &mut Tape, _d: u32) -> Self {
        ["", "a", "hello", "ünï 中", "with \"quote\" and \\", "1", "true", "null"][u.choose(8)].to_string()
    }
}
impl Gen for () {
    fn gen(_u: &mut Tape, _d: u32) -> Self {}
}
impl<T: Gen> Gen for Option<T> {
    fn gen(u: &mut Tape, d: u32) -> Self {
        if d >= MAX_DEPTH || u.choose(3) == 0 {
            None
        } else {
            Some(T::gen(u, d + 1))
        }
    }
}
impl<T: Gen> Gen for Vec<T> {
    fn gen(u: &mut Tape, d: u32) -> Self {
        let n = if d >= MAX_DEPTH { 0 } else { u.choose(4) };
        (0..n).map(|_| T::gen(u, d + 1)).collect()
    }
}
impl<T: Gen, const N: usize> Gen for [T; N] {
    fn gen(u: &mut Tape, d: u32) -> Self {
        std::array::from_fn(|_| T::gen(u, d + 1))
    }
}
impl<T: Gen> Gen for Box<T> {
    fn gen(u: &mut Tape, d: u32) -> Self {
        Box::new(T::gen(u, d))
    }
}
impl<T: Gen> Gen for std::rc::Rc<T> {
    fn gen(u: &mut Tape, d: u32) -> Self {
        std::rc::Rc::new(T::gen(u, d))
    }
}
impl<T: Gen> Gen for std::sync::Arc<T> {
    fn gen(u: &mut Tape, d: u32) -> Self {
        std::sync::Arc::new(T::gen(u, d))
    }
}
impl<T: Gen> Gen for std::cell::Cell<T> {
    fn gen(u: &mut Tape, d: u32) -> Self {
        std::cell::Cell::new(T::gen(u, d))
    }
}
impl<T: Gen> Gen for std::cell::RefCell<T> {
    fn gen(u: &mut Tape, d: u32) -> Self {
        std::cell::RefCell::new(T::gen(u, d))
    }
}
impl<T: Gen> Gen for std::sync::Mutex<T> {
    fn gen(u: &mut Tape, d: u32) -> Self {
        std::sync::Mutex::new(T::gen(u, d))
    }
}
impl<T: Gen> Gen for std::sync::RwLock<T> {
    fn gen(u: &mut Tape, d: u32) -> Self {
        std::sync::RwLock::new(T::gen(u, d))
    }
}
impl Gen for Box<str> {
    fn gen(u: &mut Tape, d: u32) -> Self {
        String::gen(u, d).into_boxed_str()
    }
}
impl<T: Gen> Gen for Box<[T]> {
    fn gen(u: &mut Tape, d: u32) -> Self {
        Vec::<T>::gen(u, d).into_boxed_slice()
    }
}
impl Gen for std::borrow::Cow<'static, str> {
    fn gen(u: &mut Tape, d: u32) -> Self {
        std::borrow::Cow::Owned(String::gen(u, d))
    }
}
impl<T: Gen + 'static> Gen for std::sync::Weak<T> {
    fn gen(u: &mut Tape, d: u32) -> Self {
        if u.choose(2) == 0 {
            std::sync::Weak::new()
        } else {
            // keep the value alive for the life of the process so that the Weak upgrades
            let strong: &'static std::sync::Arc<T> = Box::leak(Box::new(std::sync::Arc::new(T::gen(u, d + 1))));
            std::sync::Arc::downgrade(strong)
        }
    }
}
impl<T> Gen for std::marker::PhantomData<T> {
    fn gen(_u: &mut Tape, _d: u32) -> Self {
        std::marker::PhantomData
    }
}
impl<K: Gen + std::hash::Hash + Eq, V: Gen> Gen for HashMap<K, V> {
    fn gen(u: &mut Tape, d: u32) -> Self {
        let n = if d >= MAX_DEPTH { 0 } else { u.choose(3) };
        (0..n).map(|_| (K::gen(u, d + 1), V::gen(u, d + 1))).collect()
    }
}
impl<K: Gen + Ord, V: Gen> Gen for BTreeMap<K, V> {
    fn gen(u: &mut Tape, d: u32) -> Self {
        let n = if d >= MAX_DEPTH { 0 } else { u.choose(3) };
        (0..n).map(|_| (K::gen(u, d + 1), V::gen(u, d + 1))).collect()
    }
}
impl<T: Gen + std::hash::Hash + Eq> Gen for HashSet<T> {
    fn gen(u: &mut Tape, d: u32) -> Self {
        let n = if d >= MAX_DEPTH { 0 } else { u.choose(3) };
        (0..n).map(|_| T::gen(u, d + 1)).collect()
    }
}
impl<T: Gen + Ord> Gen for BTreeSet<T> {
    fn gen(u: &mut Tape, d: u32) -> Self {
        let n = if d >= MAX_DEPTH { 0 } else { u.choose(3) };
        (0..n).map(|_| T::gen(u, d + 1)).collect()
    }
}
impl<T: Gen, E: Gen> Gen for Result<T, E> {
    fn gen(u: &mut Tape, d: u32) -> Self {
        if u.choose(2) == 0 {
            Ok(T::gen(u, d + 1))
        } else {
            Err(E::gen(u, d + 1))
        }
    }
}
impl<T: Gen> Gen for std::ops::Range<T> {
    fn gen(u: &mut Tape, d: u32) -> Self {
        T::gen(u, d + 1)..T::gen(u, d + 1)
    }
}
impl<T: Gen> Gen for std::ops::RangeInclusive<T> {
    fn gen(u: &mut Tape, d: u32) -> Self {
        T::gen(u, d + 1)..=T::gen(u, d + 1)
    }
}
macro_rules! gen_tuple {
    ($($n:ident),*) => {
        impl<$($n: Gen),*> Gen for ($($n,)*) {
            fn gen(u: &mut Tape, d: u32) -> Self {
                ($($n::gen(u, d + 1),)*)
            }
        }
    };
}
gen_tuple!(A);
gen_tuple!(A, B);
gen_tuple!(A, B, C);
gen_tuple!(A, B, C, D);
gen_tuple!(A, B, C, D, E);
gen_tuple!(A, B, C, D, E, F);
gen_tuple!(A, B, C, D, E, F, G);
gen_tuple!(A, B, C, D, E, F, G, H);
gen_tuple!(A, B, C, D, E, F, G, H, I);
gen_tuple!(A, B, C, D, E, F, G, H, I, J);
impl Gen for std::path::PathBuf {
    fn gen(u: &mut Tape, d: u32) -> Self {
        std::path::PathBuf::from(["a/b.txt", "/", "rel", ""][u.choose(4)])
    }
}
impl Gen for std::net::Ipv4Addr {
    fn gen(u: &mut Tape, _d: u32) -> Self {
        std::net::Ipv4Addr::new(u.byte(), u.byte(), u.byte(), u.byte())
    }
}
impl Gen for std::net::Ipv6Addr {
    fn gen(u: &mut Tape, _d: u32) -> Self {
        std::net::Ipv6Addr::new(u.byte() as u16, 0, 0, 0, 0, 0, u.byte() as u16, 1)
    }
}
impl Gen for std::net::IpAddr {
    fn gen(u: &mut Tape, d: u32) -> Self {
        if u.choose(2) == 0 {
            std::net::IpAddr::V4(Gen::gen(u, d))
        } else {
            std::net::IpAddr::V6(Gen::gen(u, d))
        }
    }
}
impl Gen for std::net::SocketAddrV4 {
    fn gen(u: &mut Tape, d: u32) -> Self {
        std::net::SocketAddrV4::new(Gen::gen(u, d), u.byte() as u16)
    }
}
impl Gen for std::net::SocketAddrV6 {
    fn gen(u: &mut Tape, d: u32) -> Self {
        std::net::SocketAddrV6::new(Gen::gen(u, d), u.byte() as u16, 0, 0)
    }
}
impl Gen for std::net::SocketAddr {
    fn gen(u: &mut Tape, d: u32) -> Self {
        if u.choose(2) == 0 {
            std::net::SocketAddr::V4(Gen::gen(u, d))
        } else {
            std::net::SocketAddr::V6(Gen::gen(u, d))
        }
    }
}

// ---------------------------------------------------------------------------------------------
// registry
// ---------------------------------------------------------------------------------------------

fn guard<R>(f: impl FnOnce() -> R) -> Result<R, String> {
    catch_unwind(AssertUnwindSafe(f)).map_err(|p| {
        p.downcast_ref::<String>()
            .cloned()
            .or_else(|| p.downcast_ref::<&str>().map(|s| s.to_string()))
            .unwrap_or_else(|| "<non-string panic>".into())
    })
}

fn res_json(r: Result<String, String>) -> Value {
    match r {
        Ok(s) => json!({ "ok": s }),
        Err(p) => json!({ "panic": p }),
    }
}

/// declarations of the exportable types a type depends on, transitively (the driver needs the
/// declarations of library-provided named types such as `JsonValue`)
struct DeclCollector {
    seen: BTreeSet<String>,
    decls: Vec<Value>,
}

impl ts_rs::TypeVisitor for DeclCollector {
    fn visit<U: TS + 'static + ?Sized>(&mut self) {
        let Ok(Some(_)) = guard(|| U::output_path()) else { return };
        let Ok(name) = guard(|| U::ident()) else { return };
        if !self.seen.insert(name.clone()) {
            return;
        }
        self.decls.push(json!({"ident": name, "decl": res_json(guard(|| U::decl()))}));
        let _ = catch_unwind(AssertUnwindSafe(|| U::visit_dependencies(self)));
    }
}

fn info<T: TS + 'static + ?Sized>() -> Value {
    let mut collector = DeclCollector { seen: BTreeSet::new(), decls: vec![] };
    let _ = catch_unwind(AssertUnwindSafe(|| T::visit_dependencies(&mut collector)));
    let dependency_decls = collector.decls;
    let deps = guard(|| {
        T::dependencies()
            .into_iter()
            .map(|d| json!({"ts_name": d.ts_name, "output_path": d.output_path.to_string_lossy()}))
            .collect::<Vec<_>>()
    });
    json!({
        "name": res_json(guard(|| T::name())),
        "ident": res_json(guard(|| T::ident())),
        "decl": res_json(guard(|| T::decl())),
        "decl_concrete": res_json(guard(|| T::decl_concrete())),
        "inline": res_json(guard(|| T::inline())),
        "inline_flattened": res_json(guard(|| T::inline_flattened())),
        "docs": T::DOCS,
        "is_option": T::IS_OPTION,
        "output_path": guard(|| T::output_path().map(|p| p.to_string_lossy().into_owned())).unwrap_or(None),
        "default_output_path": guard(|| T::default_output_path().map(|p| p.to_string_lossy().into_owned())).unwrap_or(None),
        "dependencies": match deps { Ok(d) => json!(d), Err(p) => json!({"panic": p}) },
        "dependency_decls": dependency_decls,
        "export_to_string": match guard(|| T::export_to_string()) {
            Ok(Ok(s)) => json!({"ok": s}),
            Ok(Err(e)) => json!({"err": e.to_string()}),
            Err(p) => json!({"panic": p}),
        },
    })
}

fn gen_values<T: Gen + Serialize + DeserializeOwned>(tapes: &[Vec<u8>]) -> Value {
    let out: Vec<Value> = tapes
        .iter()
        .map(|t| {
            let r = guard(|| {
                let v = T::gen(&mut Tape::new(t), 0);
                match serde_json::to_string(&v) {
                    Err(e) => json!({"ser_err": e.to_string()}),
                    Ok(s) => {
                        // does serde round-trip its own output for this value?
                        let rt = serde_json::from_str::<T>(&s).ok().and_then(|back| serde_json::to_string(&back).ok());
                        json!({"json": s, "roundtrip": rt})
                    }
                }
            });
            match r {
                Ok(v) => v,
                Err(p) => json!({"panic": p}),
            }
        })
        .collect();
    json!(out)
}

fn gen_values_ser_only<T: Gen + Serialize>(tapes: &[Vec<u8>]) -> Value {
    let out: Vec<Value> = tapes
        .iter()
        .map(|t| {
            let r = guard(|| {
                let v = T::gen(&mut Tape::new(t), 0);
                match serde_json::to_string(&v) {
                    Err(e) => json!({"ser_err": e.to_string()}),
                    Ok(s) => json!({"json": s, "roundtrip": null}),
                }
            });
            match r {
                Ok(v) => v,
                Err(p) => json!({"panic": p}),
            }
        })
        .collect();
    json!(out)
}

fn deser_values<T: Serialize + DeserializeOwned>(values: &[String]) -> Value {
    let out: Vec<Value> = values
        .iter()
        .map(|s| {
            let r = guard(|| match serde_json::from_str::<T>(s) {
                Ok(v) => match serde_json::to_string(&v) {
                    Ok(back) => json!({"ok": back}),
                    Err(e) => json!({"reser_err": e.to_string()}),
                },
                Err(e) => json!({"err": e.to_string()}),
            });
            match r {
                Ok(v) => v,
                Err(p) => json!({"panic": p}),
            }
        })
        .collect();
    json!(out)
}

fn export<T: TS + 'static + ?Sized>(how: &str, dir: Option<&str>) -> Value {
    let r = guard(|| match how {
        "export" => T::export(),
        "export_all" => T::export_all(),
        "export_all_to" => T::export_all_to(dir.unwrap_or(".")),
        _ => panic!("unknown export kind"),
    });
    match r {
        Ok(Ok(())) => json!({"ok": true}),
        Ok(Err(e)) => json!({"err": e.to_string()}),
        Err(p) => json!({"panic": p}),
    }
}

pub struct TypeEntry {
    pub label: String,
    info: fn() -> Value,
    gen: Option<fn(&[Vec<u8>]) -> Value>,
    deser: Option<fn(&[String]) -> Value>,
    export: fn(&str, Option<&str>) -> Value,
}

#[derive(Default)]
pub struct ModuleEntry {
    pub name: String,
    pub types: Vec<TypeEntry>,
}

#[derive(Default)]
pub struct Registry {
    pub modules: Vec<ModuleEntry>,
}

impl Registry {
    pub fn module(&mut self, name: &str) -> &mut ModuleEntry {
        self.modules.push(ModuleEntry { name: name.to_string(), types: vec![] });
        self.modules.last_mut().unwrap()
    }
}

impl ModuleEntry {
    /// a type with serde derives and a value generator
    pub fn add<T: TS + Gen + Serialize + DeserializeOwned + 'static>(&mut self, label: &str) {
        self.types.push(TypeEntry {
            label: label.to_string(),
            info: info::<T>,
            gen: Some(gen_values::<T>),
            deser: Some(deser_values::<T>),
            export: export::<T>,
        });
    }
    /// serialisable but not deserialisable (e.g. contains Weak / &'static)
    pub fn add_ser<T: TS + Gen + Serialize + 'static>(&mut self, label: &str) {
        self.types.push(TypeEntry {
            label: label.to_string(),
            info: info::<T>,
            gen: Some(gen_values_ser_only::<T>),
            deser: None,
            export: export::<T>,
        });
    }
    /// only the TS side
    pub fn add_ts<T: TS + 'static + ?Sized>(&mut self, label: &str) {
        self.types.push(TypeEntry { label: label.to_string(), info: info::<T>, gen: None, deser: None, export: export::<T> });
    }
}

// ---------------------------------------------------------------------------------------------
// server
// ---------------------------------------------------------------------------------------------

static DELAYS: std::sync::Mutex<Vec<u32>> = std::sync::Mutex::new(Vec::new());
static DELAY_POS: std::sync::atomic::AtomicUsize = std::sync::atomic::AtomicUsize::new(0);

fn yield_hook(_point: &'static str) {
    let i = DELAY_POS.fetch_add(1, std::sync::atomic::Ordering::Relaxed);
    let d = {
        let g = DELAYS.lock().unwrap();
        if g.is_empty() {
            return;
        }
        g[i % g.len()]
    };
    match d {
        0 => (),
        1 => std::thread::yield_now(),
        us => std::thread::sleep(std::time::Duration::from_micros(us as u64)),
    }
}

pub fn serve(reg: Registry) {
    std::panic::set_hook(Box::new(|_| {}));
    let stdin = std::io::stdin();
    let stdout = std::io::stdout();
    let mut out = stdout.lock();
    for line in stdin.lock().lines() {
        let Ok(line) = line else { break };
        if line.trim().is_empty() {
            continue;
        }
        let req: Value = match serde_json::from_str(&line) {
            Ok(v) => v,
            Err(e) => {
                writeln!(out, "{}", json!({"error": format!("bad request: {e}")})).ok();
                out.flush().ok();
                continue;
            }
        };
        let entry = |req: &Value| -> Option<&TypeEntry> {
            let m = req["m"].as_u64()? as usize;
            let t = req["t"].as_u64()? as usize;
            reg.modules.get(m)?.types.get(t)
        };
        let resp = match req["cmd"].as_str().unwrap_or("") {
            "list" => json!(reg
                .modules
                .iter()
                .map(|m| json!({"name": m.name, "types": m.types.iter().map(|t| json!({"label": t.label, "serde": t.gen.is_some(), "de": t.deser.is_some()})).collect::<Vec<_>>()}))
                .collect::<Vec<_>>()),
            "info" => match entry(&req) {
                Some(e) => (e.info)(),
                None => json!({"error": "no such type"}),
            },
            "gen" => match entry(&req) {
                Some(e) => {
                    let tapes: Vec<Vec<u8>> = serde_json::from_value(req["tapes"].clone()).unwrap_or_default();
                    match e.gen {
                        Some(g) => g(&tapes),
                        None => json!({"error": "no serde"}),
                    }
                }
                None => json!({"error": "no such type"}),
            },
            "deser" => match entry(&req) {
                Some(e) => {
                    let values: Vec<String> = serde_json::from_value(req["values"].clone()).unwrap_or_default();
                    match e.deser {
                        Some(d) => d(&values),
                        None => json!({"error": "no deserialize"}),
                    }
                }
                None => json!({"error": "no such type"}),
            },
            "export" => match entry(&req) {
                Some(e) => (e.export)(req["how"].as_str().unwrap_or("export"), req["dir"].as_str()),
                None => json!({"error": "no such type"}),
            },
            "setenv" => {
                let mut r = json!({"ok": true});
                if let Some(cwd) = req["cwd"].as_str() {
                    if let Err(e) = std::env::set_current_dir(cwd) {
                        r = json!({"error": format!("chdir {cwd}: {e}")});
                    }
                }
                if req.get("export_dir").is_some() {
                    match req["export_dir"].as_str() {
                        Some(d) => std::env::set_var("TS_RS_EXPORT_DIR", d),
                        None => std::env::remove_var("TS_RS_EXPORT_DIR"),
                    }
                }
                r
            }
            "reset" => {
                ts_rs::verif_hooks::reset_registry();
                json!({"ok": true})
            }
            "registry" => json!(ts_rs::verif_hooks::registry_snapshot()
                .into_iter()
                .map(|(p, n)| json!({"path": p.to_string_lossy(), "names": n}))
                .collect::<Vec<_>>()),
            // concurrent exports: jobs[i] is the list of exports thread i performs in order
            "par_export" => {
                let delays: Vec<u32> = serde_json::from_value(req["delays"].clone()).unwrap_or_default();
                *DELAYS.lock().unwrap() = delays;
                DELAY_POS.store(0, std::sync::atomic::Ordering::Relaxed);
                ts_rs::verif_hooks::set_yield_hook(Some(yield_hook));
                let jobs: Vec<Vec<Value>> = serde_json::from_value(req["jobs"].clone()).unwrap_or_default();
                let barrier = std::sync::Barrier::new(jobs.len().max(1));
                let results: Vec<Vec<Value>> = std::thread::scope(|s| {
                    let hs: Vec<_> = jobs
                        .iter()
                        .map(|job| {
                            let (reg, barrier) = (&reg, &barrier);
                            s.spawn(move || {
                                barrier.wait();
                                job.iter()
                                    .map(|j| {
                                        let m = j["m"].as_u64().unwrap_or(0) as usize;
                                        let t = j["t"].as_u64().unwrap_or(0) as usize;
                                        match reg.modules.get(m).and_then(|m| m.types.get(t)) {
                                            Some(e) => (e.export)(j["how"].as_str().unwrap_or("export"), j["dir"].as_str()),
                                            None => json!({"error": "no such type"}),
                                        }
                                    })
                                    .collect::<Vec<_>>()
                            })
                        })
                        .collect();
                    hs.into_iter().map(|h| h.join().unwrap_or_else(|_| vec![json!({"panic": "thread"})])).collect()
                });
                ts_rs::verif_hooks::set_yield_hook(None);
                json!(results)
            }
            "quit" => break,
            other => json!({"error": format!("unknown cmd {other}")}),
        };
        writeln!(out, "{}", resp).ok();
        out.flush().ok();
    }
}

#[cfg(feature = "ext")]
#[path = "ext.rs"]
pub mod ext;
