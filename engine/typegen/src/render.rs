//! Rust source for a generated module.

use crate::model::*;

pub fn render_ty(ty: &TyExpr, m: &Module) -> String {
    match ty {
        TyExpr::Prim(p) => p.to_string(),
        // (now and then by their full paths: a type parameter that only occurs inside a qualified
        // path must still be found by the derive)
        TyExpr::Option(t) => {
            let inner = render_ty(t, m);
            if inner.len() % 4 == 1 { format!("std::option::Option<{inner}>") } else { format!("Option<{inner}>") }
        }
        TyExpr::Vec(t) => {
            let inner = render_ty(t, m);
            if inner.len() % 4 == 1 { format!("std::vec::Vec<{inner}>") } else { format!("Vec<{inner}>") }
        }
        TyExpr::Array(t, n) => format!("[{}; {}]", render_ty(t, m), n),
        TyExpr::Tuple(ts) => format!("({},)", ts.iter().map(|t| render_ty(t, m)).collect::<Vec<_>>().join(", ")),
        TyExpr::Map(k, v, btree) => {
            format!("{}<{}, {}>", if *btree { "BTreeMap" } else { "HashMap" }, render_ty(k, m), render_ty(v, m))
        }
        TyExpr::Wrap(w, t) => format!("{}<{}>", w, render_ty(t, m)),
        TyExpr::User(i, args) => {
            let td = &m.types[*i];
            let id = &td.ident;
            let mut all: Vec<String> = td.lifetimes.iter().map(|_| "'static".to_string()).collect();
            let consts: Vec<String> = td.consts.iter().map(|_| "2".to_string()).collect();
            let tys: Vec<String> = args.iter().map(|t| render_ty(t, m)).collect();
            if td.const_first {
                all.extend(consts);
                all.extend(tys);
            } else {
                all.extend(tys);
                all.extend(consts);
            }
            if all.is_empty() {
                id.clone()
            } else {
                format!("{}<{}>", id, all.join(", "))
            }
        }
        TyExpr::Param(p) => p.clone(),
        TyExpr::SelfRef(s) => s.to_string(),
        TyExpr::Lib(n, args) => {
            if args.is_empty() {
                n.to_string()
            } else if *n == "[_]" {
                format!("[{}]", render_ty(&args[0], m))
            } else if *n == "[_; N]" {
                format!("[{}; N]", render_ty(&args[0], m))
            } else if *n == "&" {
                format!("&{}", render_ty(&args[0], m))
            } else if *n == "heapless::Vec" {
                format!("heapless::Vec<{}, 4>", render_ty(&args[0], m))
            } else if *n == "std::borrow::Cow" {
                format!("std::borrow::Cow<'static, {}>", render_ty(&args[0], m))
            } else {
                format!("{}<{}>", n, args.iter().map(|t| render_ty(t, m)).collect::<Vec<_>>().join(", "))
            }
        }
    }
}

fn lit(s: &str) -> String {
    format!("{:?}", s)
}

fn render_doc(d: &Option<Doc>, indent: &str, out: &mut String) {
    let Some(d) = d else { return };
    match d.style {
        DocStyle::Line => {
            for l in &d.lines {
                out.push_str(&format!("{indent}///{l}\n"));
            }
        }
        DocStyle::Attr => {
            for l in &d.lines {
                out.push_str(&format!("{indent}#[doc = {}]\n", lit(l)));
            }
        }
        DocStyle::Block => {
            out.push_str(&format!("{indent}#[doc = {}]\n", lit(&format!("{}\n ", d.lines.join("\n")))));
        }
        DocStyle::BlockThenAttrs => {
            let k = (d.lines.len() + 1) / 2;
            out.push_str(&format!("{indent}#[doc = {}]\n", lit(&format!("{}\n ", d.lines[..k].join("\n")))));
            for l in &d.lines[k..] {
                out.push_str(&format!("{indent}#[doc = {}]\n", lit(l)));
            }
        }
    }
}

/// one attribute list, or - for a quarter of the items, chosen by a hash of the list itself - one
/// attribute per key (`#[serde(a)] #[serde(b)]`)
fn push_attr_list(out: &mut String, indent: &str, name: &str, items: &[String]) {
    if items.is_empty() {
        return;
    }
    let h = items.iter().fold(items.len() as u32 * 7 + name.len() as u32, |h, i| h.wrapping_mul(31).wrapping_add(i.len() as u32));
    if items.len() >= 2 && h % 4 == 0 {
        for i in items {
            out.push_str(&format!("{indent}#[{name}({i})]\n"));
        }
    } else {
        out.push_str(&format!("{indent}#[{name}({})]\n", items.join(", ")));
    }
}

fn render_field(f: &Field, m: &Module, indent: &str, out: &mut String) {
    render_doc(&f.docs, indent, out);
    let mut serde: Vec<String> = vec![];
    let mut ts: Vec<String> = vec![];
    if f.skip_if_none {
        serde.push("default".into());
        serde.push("skip_serializing_if = \"Option::is_none\"".into());
    }
    if let Some(r) = &f.rename {
        serde.push(format!("rename = {}", lit(r)));
    }
    if f.skip {
        serde.push("skip".into());
    }
    if f.flatten {
        serde.push("flatten".into());
    }
    if f.inline {
        ts.push("inline".into());
    }
    match f.optional {
        Some(true) => ts.push("optional = nullable".into()),
        Some(false) => ts.push("optional".into()),
        None => (),
    }
    if let Some(t) = &f.type_override {
        ts.push(format!("type = {}", lit(t)));
    }
    if f.as_same {
        ts.push(format!("as = {}", lit(&render_ty(&f.ty, m))));
    }
    if let Some(t) = &f.as_type {
        ts.push(format!("as = {}", lit(&render_ty(t, m))));
    }
    if !m.serde {
        // TS-only corpus: spell everything as ts attributes (unknown-to-ts serde keys dropped)
        for s in serde.drain(..) {
            if !(s == "default" || s.starts_with("skip_serializing_if")) {
                ts.push(s);
            }
        }
    }
    push_attr_list(out, indent, "serde", &serde);
    push_attr_list(out, indent, "ts", &ts);
    match &f.ident {
        Some(id) => out.push_str(&format!("{indent}pub {id}: {},\n", render_ty(&f.ty, m))),
        None => out.push_str(&format!("{indent}pub {},\n", render_ty(&f.ty, m))),
    }
}

fn generics_decl(td: &TypeDef, m: &Module) -> String {
    let mut all: Vec<String> = td.lifetimes.clone();
    let consts: Vec<String> = td.consts.iter().map(|c| if td.const_default && !td.const_first { format!("const {c}: usize = 3") } else { format!("const {c}: usize") }).collect();
    let tys: Vec<String> = td
        .params
        .iter()
        .map(|p| match &p.default {
            Some(d) => format!("{} = {}", p.name, render_ty(d, m)),
            None => p.name.clone(),
        })
        .collect();
    // (a defaulted type parameter may not be followed by a const parameter without default, so
    // consts go first when a default exists)
    if td.const_first {
        all.extend(consts);
        all.extend(tys);
    } else {
        all.extend(tys);
        all.extend(consts);
    }
    if all.is_empty() {
        return String::new();
    }
    format!("<{}>", all.join(", "))
}

fn generics_use(td: &TypeDef) -> String {
    let mut all: Vec<String> = td.lifetimes.clone();
    let tys: Vec<String> = td.params.iter().map(|p| p.name.clone()).collect();
    if td.const_first {
        all.extend(td.consts.iter().cloned());
        all.extend(tys);
    } else {
        all.extend(tys);
        all.extend(td.consts.iter().cloned());
    }
    if all.is_empty() {
        return String::new();
    }
    format!("<{}>", all.join(", "))
}

pub fn render_type(td: &TypeDef, m: &Module) -> String {
    let mut out = String::new();
    render_doc(&td.docs, "    ", &mut out);
    let unit_enum = matches!(&td.body, Body::Enum(vs) if !vs.is_empty() && vs.iter().all(|v| matches!(v.body, VBody::Unit)));
    if unit_enum && td.params.is_empty() {
        out.push_str("    #[derive(Clone, Copy, Debug, PartialEq, Eq, Hash, PartialOrd, Ord)]\n");
    }
    if m.serde {
        out.push_str("    #[derive(ts_rs::TS, serde::Serialize, serde::Deserialize)]\n");
    } else {
        out.push_str("    #[derive(ts_rs::TS)]\n");
    }
    let a = &td.attrs;
    let mut serde: Vec<String> = vec![];
    let mut ts: Vec<String> = vec![];
    if let Some(r) = &a.rename {
        serde.push(format!("rename = {}", lit(r)));
    }
    if let Some(r) = a.rename_all {
        serde.push(format!("rename_all = {}", lit(r.as_str())));
    }
    if let Some(r) = a.rename_all_fields {
        serde.push(format!("rename_all_fields = {}", lit(r.as_str())));
    }
    if let Some(t) = &a.tag {
        serde.push(format!("tag = {}", lit(t)));
    }
    if let Some(c) = &a.content {
        serde.push(format!("content = {}", lit(c)));
    }
    if a.untagged {
        serde.push("untagged".into());
    }
    if let Some(p) = &a.export_to {
        ts.push(format!("export_to = {}", lit(p)));
    }
    match a.optional_fields {
        Some(true) => ts.push("optional_fields = nullable".into()),
        Some(false) => ts.push("optional_fields".into()),
        None => (),
    }
    if let Some(t) = &a.type_override {
        ts.push(format!("type = {}", lit(t)));
    }
    if let Some(t) = &a.as_type {
        ts.push(format!("as = {}", lit(&render_ty(t, m))));
    }
    let concrete: Vec<String> = td.params.iter().filter_map(|p| p.concrete.as_ref().map(|c| format!("{} = {}", p.name, render_ty(c, m)))).collect();
    // a parameter only a skipped marker mentions gets no inferred bound: spell the bounds out
    // (`bound` replaces the inferred ones, so every type parameter is listed)
    if td.params.iter().any(|p| p.ts_bound) {
        ts.push(format!("bound = {}", lit(&td.params.iter().map(|p| format!("{}: ts_rs::TS", p.name)).collect::<Vec<_>>().join(", "))));
    }
    // two concretised parameters: in one list, or split over two attributes (by identifier length)
    let split_concrete = concrete.len() >= 2 && td.ident.len() % 3 != 0;
    if !concrete.is_empty() && !split_concrete {
        ts.push(format!("concrete({})", concrete.join(", ")));
    }
    if !m.serde {
        ts.extend(serde.drain(..));
    }
    push_attr_list(&mut out, "    ", "serde", &serde);
    push_attr_list(&mut out, "    ", "ts", &ts);
    if split_concrete {
        for c in &concrete {
            out.push_str(&format!("    #[ts(concrete({c}))]\n"));
        }
    }
    let g = generics_decl(td, m);
    // an item with a const parameter and no type parameter carries a where clause of its own (TS-only
    // modules): every impl for the item has to repeat it
    let w = if !m.serde && td.params.is_empty() && !td.consts.is_empty() { format!(" where [u8; {}]: Default", td.consts[0]) } else { String::new() };
    match &td.body {
        Body::Unit => out.push_str(&format!("    pub struct {}{g}{w};\n", td.ident)),
        Body::Newtype(f) => {
            out.push_str(&format!("    pub struct {}{g}(\n", td.ident));
            render_field(f, m, "        ", &mut out);
            out.push_str(&format!("    ){w};\n"));
        }
        Body::Tuple(fs) => {
            out.push_str(&format!("    pub struct {}{g}(\n", td.ident));
            for f in fs {
                render_field(f, m, "        ", &mut out);
            }
            out.push_str(&format!("    ){w};\n"));
        }
        Body::Named(fs) => {
            out.push_str(&format!("    pub struct {}{g}{w} {{\n", td.ident));
            for f in fs {
                render_field(f, m, "        ", &mut out);
            }
            out.push_str("    }\n");
        }
        Body::Enum(vs) => {
            out.push_str(&format!("    pub enum {}{g}{w} {{\n", td.ident));
            for v in vs {
                render_doc(&v.docs, "        ", &mut out);
                let mut serde: Vec<String> = vec![];
                if let Some(r) = &v.rename {
                    serde.push(format!("rename = {}", lit(r)));
                }
                if let Some(r) = v.rename_all {
                    serde.push(format!("rename_all = {}", lit(r.as_str())));
                }
                if v.skip {
                    serde.push("skip".into());
                }
                if v.untagged {
                    serde.push("untagged".into());
                }
                push_attr_list(&mut out, "        ", if m.serde { "serde" } else { "ts" }, &serde);
                if let Some(t) = &v.as_type {
                    out.push_str(&format!("        #[ts(as = {})]\n", lit(&render_ty(t, m))));
                }
                match &v.body {
                    VBody::Unit => out.push_str(&format!("        {},\n", v.ident)),
                    VBody::Newtype(f) => {
                        out.push_str(&format!("        {}(\n", v.ident));
                        render_field_in_variant(f, m, &mut out);
                        out.push_str("        ),\n");
                    }
                    VBody::Tuple(fs) => {
                        out.push_str(&format!("        {}(\n", v.ident));
                        for f in fs {
                            render_field_in_variant(f, m, &mut out);
                        }
                        out.push_str("        ),\n");
                    }
                    VBody::Named(fs) => {
                        out.push_str(&format!("        {} {{\n", v.ident));
                        for f in fs {
                            render_field_in_variant(f, m, &mut out);
                        }
                        out.push_str("        },\n");
                    }
                }
            }
            out.push_str("    }\n");
        }
    }
    out
}

fn render_field_in_variant(f: &Field, m: &Module, out: &mut String) {
    let mut s = String::new();
    render_field(f, m, "            ", &mut s);
    // fields of enum variants have no visibility qualifier
    out.push_str(&s.replace("            pub ", "            "));
}

fn gen_fields_named(fs: &[Field]) -> String {
    fs.iter().map(|f| format!("{}: rt::Gen::gen(u, d + 1)", f.ident.as_ref().unwrap())).collect::<Vec<_>>().join(", ")
}

fn gen_fields_tuple(n: usize) -> String {
    (0..n).map(|_| "rt::Gen::gen(u, d + 1)".to_string()).collect::<Vec<_>>().join(", ")
}

pub fn render_gen(td: &TypeDef) -> String {
    let bounds = if td.params.is_empty() {
        String::new()
    } else {
        format!("<{}>", td.params.iter().map(|p| format!("{}: rt::Gen", p.name)).collect::<Vec<_>>().join(", "))
    };
    let mut out = format!("    impl{bounds} rt::Gen for {}{} {{\n        fn gen(u: &mut rt::Tape, d: u32) -> Self {{\n", td.ident, generics_use(td));
    match &td.body {
        Body::Unit => out.push_str(&format!("            {}\n", td.ident)),
        Body::Newtype(_) => out.push_str(&format!("            {}(rt::Gen::gen(u, d + 1))\n", td.ident)),
        Body::Tuple(fs) => out.push_str(&format!("            {}({})\n", td.ident, gen_fields_tuple(fs.len()))),
        Body::Named(fs) => out.push_str(&format!("            {} {{ {} }}\n", td.ident, gen_fields_named(fs))),
        Body::Enum(vs) => {
            let live: Vec<&Variant> = vs.iter().filter(|v| !v.skip).collect();
            if live.is_empty() {
                out.push_str("            unreachable!()\n");
            } else {
                out.push_str(&format!(
                    "            let n = if d >= rt::MAX_DEPTH {{ 1 }} else {{ {} }};\n            match u.choose(n) {{\n",
                    live.len()
                ));
                for (i, v) in live.iter().enumerate() {
                    let pat = if i + 1 == live.len() { "_".to_string() } else { i.to_string() };
                    let ctor = match &v.body {
                        VBody::Unit => format!("{}::{}", td.ident, v.ident),
                        VBody::Newtype(_) => format!("{}::{}(rt::Gen::gen(u, d + 1))", td.ident, v.ident),
                        VBody::Tuple(fs) => format!("{}::{}({})", td.ident, v.ident, gen_fields_tuple(fs.len())),
                        VBody::Named(fs) => format!("{}::{} {{ {} }}", td.ident, v.ident, gen_fields_named(fs)),
                    };
                    out.push_str(&format!("                {pat} => {ctor},\n"));
                }
                out.push_str("            }\n");
            }
        }
    }
    out.push_str("        }\n    }\n");
    out
}

/// Render the module as `pub mod <name> { .. }`. Returns the source.
pub fn render_module(m: &Module) -> String {
    let mut out = format!("pub mod {} {{\n    #![allow(unused, non_camel_case_types, non_snake_case, non_upper_case_globals, uncommon_codepoints, mixed_script_confusables, confusable_idents, clippy::all)]\n    use super::rt;\n    use std::collections::{{BTreeMap, HashMap}};\n    use std::{{cell::{{Cell, RefCell}}, rc::Rc, sync::{{Arc, Mutex}}}};\n\n", m.name);
    for td in &m.types {
        out.push_str(&render_type(td, m));
        if m.serde {
            out.push_str(&render_gen(td));
        }
        out.push('\n');
    }
    out.push_str(&format!("    pub fn register(reg: &mut rt::Registry) {{\n        let m = reg.module({});\n", lit(&m.name)));
    for inst in &m.insts {
        let ty = render_ty(inst, m);
        if m.serde {
            out.push_str(&format!("        m.add::<{ty}>({});\n", lit(&ty)));
        } else {
            out.push_str(&format!("        m.add_ts::<{ty}>({});\n", lit(&ty)));
        }
    }
    for r in &m.extra_roots {
        out.push_str(&format!("        m.add_ts::<{r}>({});\n", lit(r)));
    }
    out.push_str("    }\n}\n");
    if m.without_ts_derive {
        out = out
            .lines()
            .filter(|l| !l.trim_start().starts_with("#[ts(") && !l.contains("m.add"))
            .map(|l| l.replace("#[derive(ts_rs::TS)]", "").replace("ts_rs::TS, ", ""))
            .collect::<Vec<_>>()
            .join("\n");
        out.push('\n');
    }
    out
}

/// `main.rs` of a slot crate holding the given modules.
pub fn render_slot(modules: &[&Module], rt_path: &str) -> (String, Vec<(String, usize, usize)>) {
    let mut out = format!("#![allow(unused)]\n#[path = {}]\nmod rt;\n\n", lit(rt_path));
    let mut spans = vec![];
    for m in modules {
        let start = out.lines().count() + 1;
        out.push_str(&render_module(m));
        out.push('\n');
        let end = out.lines().count();
        spans.push((m.name.clone(), start, end));
    }
    out.push_str("fn main() {\n    let mut reg = rt::Registry::default();\n");
    for m in modules {
        out.push_str(&format!("    {}::register(&mut reg);\n", m.name));
    }
    out.push_str("    rt::serve(reg);\n}\n");
    (out, spans)
}
