//! The item AST and the model-side facts derived from it (TypeScript name, output path).

fn leak(s: String) -> &'static str {
    Box::leak(s.into_boxed_str())
}

/// serialisable mirror of `TyExpr` (owned strings)
#[derive(serde::Serialize, serde::Deserialize)]
pub enum TyRepr {
    Prim(String),
    Option(Box<TyRepr>),
    Vec(Box<TyRepr>),
    Array(Box<TyRepr>, usize),
    Tuple(Vec<TyRepr>),
    Map(Box<TyRepr>, Box<TyRepr>, bool),
    Wrap(String, Box<TyRepr>),
    User(usize, Vec<TyRepr>),
    Param(String),
    SelfRef(String),
    Lib(String, Vec<TyRepr>),
}

impl serde::Serialize for TyExpr {
    fn serialize<S: serde::Serializer>(&self, s: S) -> Result<S::Ok, S::Error> {
        serde::Serialize::serialize(&TyRepr::from(self.clone()), s)
    }
}

impl<'de> serde::Deserialize<'de> for TyExpr {
    fn deserialize<D: serde::Deserializer<'de>>(d: D) -> Result<Self, D::Error> {
        let r: TyRepr = serde::Deserialize::deserialize(d)?;
        Ok(r.into())
    }
}

impl From<TyExpr> for TyRepr {
    fn from(t: TyExpr) -> TyRepr {
        match t {
            TyExpr::Prim(p) => TyRepr::Prim(p.to_string()),
            TyExpr::Option(t) => TyRepr::Option(Box::new((*t).into())),
            TyExpr::Vec(t) => TyRepr::Vec(Box::new((*t).into())),
            TyExpr::Array(t, n) => TyRepr::Array(Box::new((*t).into()), n),
            TyExpr::Tuple(ts) => TyRepr::Tuple(ts.into_iter().map(Into::into).collect()),
            TyExpr::Map(k, v, b) => TyRepr::Map(Box::new((*k).into()), Box::new((*v).into()), b),
            TyExpr::Wrap(w, t) => TyRepr::Wrap(w.to_string(), Box::new((*t).into())),
            TyExpr::User(i, a) => TyRepr::User(i, a.into_iter().map(Into::into).collect()),
            TyExpr::Param(p) => TyRepr::Param(p),
            TyExpr::SelfRef(s) => TyRepr::SelfRef(s.to_string()),
            TyExpr::Lib(n, a) => TyRepr::Lib(n.to_string(), a.into_iter().map(Into::into).collect()),
        }
    }
}

impl From<TyRepr> for TyExpr {
    fn from(t: TyRepr) -> TyExpr {
        match t {
            TyRepr::Prim(p) => TyExpr::Prim(leak(p)),
            TyRepr::Option(t) => TyExpr::Option(Box::new((*t).into())),
            TyRepr::Vec(t) => TyExpr::Vec(Box::new((*t).into())),
            TyRepr::Array(t, n) => TyExpr::Array(Box::new((*t).into()), n),
            TyRepr::Tuple(ts) => TyExpr::Tuple(ts.into_iter().map(Into::into).collect()),
            TyRepr::Map(k, v, b) => TyExpr::Map(Box::new((*k).into()), Box::new((*v).into()), b),
            TyRepr::Wrap(w, t) => TyExpr::Wrap(leak(w), Box::new((*t).into())),
            TyRepr::User(i, a) => TyExpr::User(i, a.into_iter().map(Into::into).collect()),
            TyRepr::Param(p) => TyExpr::Param(p),
            TyRepr::SelfRef(s) => TyExpr::SelfRef(leak(s)),
            TyRepr::Lib(n, a) => TyExpr::Lib(leak(n), a.into_iter().map(Into::into).collect()),
        }
    }
}

#[derive(Clone, Copy, Debug, PartialEq, Eq, Hash, serde::Serialize, serde::Deserialize)]
pub enum Rule {
    Lower,
    Upper,
    Pascal,
    Camel,
    Snake,
    ScreamingSnake,
    Kebab,
    ScreamingKebab,
}

pub const RULES: [Rule; 8] =
    [Rule::Lower, Rule::Upper, Rule::Pascal, Rule::Camel, Rule::Snake, Rule::ScreamingSnake, Rule::Kebab, Rule::ScreamingKebab];

impl Rule {
    pub fn as_str(self) -> &'static str {
        match self {
            Rule::Lower => "lowercase",
            Rule::Upper => "UPPERCASE",
            Rule::Pascal => "PascalCase",
            Rule::Camel => "camelCase",
            Rule::Snake => "snake_case",
            Rule::ScreamingSnake => "SCREAMING_SNAKE_CASE",
            Rule::Kebab => "kebab-case",
            Rule::ScreamingKebab => "SCREAMING-KEBAB-CASE",
        }
    }
}

#[derive(Clone, Copy, Debug, PartialEq, Eq, Hash, serde::Serialize, serde::Deserialize)]
pub enum Repr {
    External,
    Internal,
    Adjacent,
    Untagged,
}

#[derive(Clone, Debug, PartialEq, Eq, Hash)]
pub enum TyExpr {
    Prim(&'static str),
    Option(Box<TyExpr>),
    Vec(Box<TyExpr>),
    Array(Box<TyExpr>, usize),
    Tuple(Vec<TyExpr>),
    /// key, value, BTreeMap?
    Map(Box<TyExpr>, Box<TyExpr>, bool),
    Wrap(&'static str, Box<TyExpr>),
    /// index into Module.types, type arguments
    User(usize, Vec<TyExpr>),
    Param(String),
    /// self reference, written verbatim (`Option<Box<Self>>`, `Vec<Self>`, `Box<Self>`)
    SelfRef(&'static str),
    /// a library type by path, with type arguments (`std::collections::HashSet<T>`)
    Lib(&'static str, Vec<TyExpr>),
}

#[derive(Clone, Copy, Debug, PartialEq, Eq, Hash, serde::Serialize, serde::Deserialize)]
pub enum DocStyle {
    Line,
    Attr,
    Block,
    /// the first half of the lines as one multi-line attribute, the rest as one attribute each
    /// (a block comment followed by `///` lines)
    BlockThenAttrs,
}

#[derive(Clone, Debug, PartialEq, Eq, Hash, serde::Serialize, serde::Deserialize)]
pub struct Doc {
    pub lines: Vec<String>,
    pub style: DocStyle,
}

#[derive(Clone, Debug, Default, PartialEq, Eq, Hash, serde::Serialize, serde::Deserialize)]
pub struct Field {
    pub ident: Option<String>,
    pub ty: TyExpr,
    pub rename: Option<String>,
    pub skip: bool,
    pub flatten: bool,
    pub inline: bool,
    /// Some(nullable)
    pub optional: Option<bool>,
    /// `#[serde(default, skip_serializing_if = "Option::is_none")]`
    pub skip_if_none: bool,
    pub type_override: Option<String>,
    /// `#[ts(as = "<the same type>")]`
    pub as_same: bool,
    /// `#[ts(as = "<this other type>")]`
    #[serde(default)]
    pub as_type: Option<TyExpr>,
    pub docs: Option<Doc>,
}

impl Default for TyExpr {
    fn default() -> Self {
        TyExpr::Prim("i32")
    }
}

#[derive(Clone, Debug, PartialEq, Eq, Hash, serde::Serialize, serde::Deserialize)]
pub enum VBody {
    Unit,
    Newtype(Field),
    Tuple(Vec<Field>),
    Named(Vec<Field>),
}

impl Default for VBody {
    fn default() -> Self {
        VBody::Unit
    }
}

#[derive(Clone, Debug, Default, PartialEq, Eq, Hash, serde::Serialize, serde::Deserialize)]
pub struct Variant {
    pub ident: String,
    pub body: VBody,
    pub rename: Option<String>,
    pub rename_all: Option<Rule>,
    pub skip: bool,
    pub untagged: bool,
    pub docs: Option<Doc>,
    /// `#[ts(as = "..")]` on the variant
    #[serde(default)]
    pub as_type: Option<TyExpr>,
}

#[derive(Clone, Debug, PartialEq, Eq, Hash, serde::Serialize, serde::Deserialize)]
pub enum Body {
    Unit,
    Newtype(Field),
    /// 0 or >= 2 fields
    Tuple(Vec<Field>),
    Named(Vec<Field>),
    Enum(Vec<Variant>),
}

#[derive(Clone, Debug, Default, PartialEq, Eq, Hash, serde::Serialize, serde::Deserialize)]
pub struct ContainerAttrs {
    pub rename: Option<String>,
    pub rename_all: Option<Rule>,
    pub rename_all_fields: Option<Rule>,
    pub tag: Option<String>,
    pub content: Option<String>,
    pub untagged: bool,
    pub export_to: Option<String>,
    /// Some(nullable)
    pub optional_fields: Option<bool>,
    pub type_override: Option<String>,
    /// `#[ts(as = "..")]` on the container
    #[serde(default)]
    pub as_type: Option<TyExpr>,
}

impl ContainerAttrs {
    pub fn repr(&self) -> Repr {
        match (self.untagged, &self.tag, &self.content) {
            (true, _, _) => Repr::Untagged,
            (_, Some(_), Some(_)) => Repr::Adjacent,
            (_, Some(_), None) => Repr::Internal,
            _ => Repr::External,
        }
    }
}

#[derive(Clone, Debug, PartialEq, Eq, Hash, serde::Serialize, serde::Deserialize)]
pub struct Param {
    pub name: String,
    pub default: Option<TyExpr>,
    /// `#[ts(concrete(name = ..))]`
    #[serde(default)]
    pub concrete: Option<TyExpr>,
    /// the parameter carries an explicit `: ts_rs::TS` bound (it is only used by a skipped
    /// `PhantomData` marker, so the derive cannot infer the bound)
    #[serde(default)]
    pub ts_bound: bool,
}

#[derive(Clone, Debug, PartialEq, Eq, Hash, serde::Serialize, serde::Deserialize)]
pub struct TypeDef {
    pub ident: String,
    /// lifetime parameters (`'a`), only in TS-only modules
    #[serde(default)]
    pub lifetimes: Vec<String>,
    /// const parameters (`N`), all `usize`, instantiated with 2; only in TS-only modules
    #[serde(default)]
    pub consts: Vec<String>,
    /// const parameters are declared in front of the type parameters
    #[serde(default)]
    pub const_first: bool,
    /// the const parameters carry a default (`const N: usize = 2`)
    #[serde(default)]
    pub const_default: bool,
    pub params: Vec<Param>,
    pub body: Body,
    pub attrs: ContainerAttrs,
    pub docs: Option<Doc>,
}

impl TypeDef {
    pub fn all_fields(&self) -> Vec<&Field> {
        match &self.body {
            Body::Unit => vec![],
            Body::Newtype(f) => vec![f],
            Body::Tuple(fs) | Body::Named(fs) => fs.iter().collect(),
            Body::Enum(vs) => vs
                .iter()
                .filter(|v| !v.skip)
                .flat_map(|v| match &v.body {
                    VBody::Unit => vec![],
                    VBody::Newtype(f) => vec![f],
                    VBody::Tuple(fs) | VBody::Named(fs) => fs.iter().collect(),
                })
                .collect(),
        }
    }
    pub fn all_fields_mut(&mut self) -> Vec<&mut Field> {
        match &mut self.body {
            Body::Unit => vec![],
            Body::Newtype(f) => vec![f],
            Body::Tuple(fs) | Body::Named(fs) => fs.iter_mut().collect(),
            Body::Enum(vs) => vs
                .iter_mut()
                .flat_map(|v| match &mut v.body {
                    VBody::Unit => vec![],
                    VBody::Newtype(f) => vec![f],
                    VBody::Tuple(fs) | VBody::Named(fs) => fs.iter_mut().collect(),
                })
                .collect(),
        }
    }
    /// every type expression of the definition (field types - also of skipped variants -, `as`
    /// types of fields / variants / the container, parameter defaults and `concrete` types)
    pub fn for_each_ty_mut(&mut self, f: &mut dyn FnMut(&mut TyExpr)) {
        for fld in self.all_fields_mut() {
            f(&mut fld.ty);
            if let Some(a) = &mut fld.as_type {
                f(a);
            }
        }
        for p in self.params.iter_mut() {
            if let Some(d) = &mut p.default {
                f(d);
            }
            if let Some(c) = &mut p.concrete {
                f(c);
            }
        }
        if let Some(a) = &mut self.attrs.as_type {
            f(a);
        }
        if let Body::Enum(vs) = &mut self.body {
            for v in vs {
                if let Some(a) = &mut v.as_type {
                    f(a);
                }
            }
        }
    }

    /// the TypeScript identifier the documentation promises
    pub fn ts_name(&self) -> String {
        match &self.attrs.rename {
            Some(r) => r.clone(),
            None => self.ident.trim_start_matches("r#").to_string(),
        }
    }
    /// the documented relative output path: `<name>.ts`; `p + <name>.ts` if `p` ends in `/`; else `p`
    pub fn expected_path(&self) -> String {
        match &self.attrs.export_to {
            None => format!("{}.ts", self.ts_name()),
            Some(p) if p.ends_with('/') => format!("{p}{}.ts", self.ts_name()),
            Some(p) => p.clone(),
        }
    }
    pub fn is_generic(&self) -> bool {
        !self.params.is_empty()
    }
    /// the type parameters the TypeScript declaration is generic over
    pub fn ts_params(&self) -> Vec<&Param> {
        self.params.iter().filter(|p| p.concrete.is_none()).collect()
    }
}

pub fn collect_users(t: &TyExpr, out: &mut std::collections::BTreeSet<usize>) {
    use TyExpr::*;
    match t {
        User(i, args) => {
            out.insert(*i);
            args.iter().for_each(|a| collect_users(a, out));
        }
        Option(x) | Vec(x) | Array(x, _) | Wrap(_, x) => collect_users(x, out),
        Tuple(xs) => xs.iter().for_each(|a| collect_users(a, out)),
        Map(k, v, _) => {
            collect_users(k, out);
            collect_users(v, out);
        }
        Lib(_, args) => args.iter().for_each(|a| collect_users(a, out)),
        _ => (),
    }
}

/// the definitions whose names can appear in the declaration of `d`: everything its fields,
/// parameter defaults and `concrete` types mention, and - through inlined or flattened fields -
/// what those definitions mention
pub fn inline_closure(types: &[TypeDef], d: usize) -> std::collections::BTreeSet<usize> {
    let mut out = std::collections::BTreeSet::new();
    let mut seen = std::collections::BTreeSet::new();
    let mut todo = vec![d];
    while let Some(i) = todo.pop() {
        if !seen.insert(i) {
            continue;
        }
        let td = &types[i];
        let mut direct = std::collections::BTreeSet::new();
        for p in &td.params {
            if let Some(x) = &p.default {
                collect_users(x, &mut direct);
            }
            if let Some(x) = &p.concrete {
                collect_users(x, &mut direct);
            }
        }
        if let Some(a) = &td.attrs.as_type {
            collect_users(a, &mut direct);
        }
        if let Body::Enum(vs) = &td.body {
            for v in vs {
                if let Some(a) = &v.as_type {
                    collect_users(a, &mut direct);
                }
            }
        }
        for f in td.all_fields() {
            let mut here = std::collections::BTreeSet::new();
            collect_users(&f.ty, &mut here);
            if let Some(a) = &f.as_type {
                collect_users(a, &mut here);
            }
            if f.inline || f.flatten {
                todo.extend(here.iter().copied());
            }
            direct.extend(here);
        }
        out.extend(direct);
    }
    out
}

#[derive(Clone, Debug, PartialEq, Eq, Hash, serde::Serialize, serde::Deserialize)]
pub struct Module {
    pub name: String,
    pub types: Vec<TypeDef>,
    /// concrete types registered for interrogation (every non-generic type, instantiations of
    /// generic ones)
    pub insts: Vec<TyExpr>,
    pub serde: bool,
    /// further registered types, written verbatim and registered TS-only after `insts`
    /// (non-exportable roots such as `i32` or `Vec<User>` for the fault histories)
    #[serde(default)]
    pub extra_roots: Vec<String>,
    /// control rendering: the same items without `derive(TS)`, `#[ts(..)]` and registration -
    /// decides whether a compile error is the derive's or the generated program's
    #[serde(default)]
    pub without_ts_derive: bool,
}

impl Module {
    /// structural feature labels, for the evidence histogram and the non-triviality rules
    pub fn labels(&self) -> Vec<String> {
        let mut out = std::collections::BTreeSet::new();
        for inst in &self.insts {
            if let TyExpr::User(_, args) = inst {
                if args.iter().any(|a| matches!(a, TyExpr::User(_, inner) if !inner.is_empty())) {
                    out.insert("instantiated_generic_as_type_argument".to_string());
                }
            }
        }
        for (i, td) in self.types.iter().enumerate() {
            for (j, o) in self.types.iter().enumerate() {
                if i == j {
                    continue;
                }
                let (a, b) = (td.ts_name(), o.ts_name());
                if a == b {
                    out.insert("two_types_one_ts_name".to_string());
                } else if b.starts_with(&a) && td.expected_path() == o.expected_path() {
                    out.insert("name_extends_name_in_same_file".to_string());
                }
                let (pa, pb) = (td.expected_path(), o.expected_path());
                if pa != pb && pa.rsplit('/').next() == pb.rsplit('/').next() {
                    out.insert("same_file_name_in_two_directories".to_string());
                }
            }
            {
                // a reference to a later definition closes a cycle (definitions only refer backwards otherwise)
                let mut direct = std::collections::BTreeSet::new();
                for f in td.all_fields() {
                    collect_users(&f.ty, &mut direct);
                }
                if direct.iter().any(|j| *j > i) {
                    out.insert("reference_cycle".to_string());
                }
            }
            if let Body::Enum(vs) = &td.body {
                if vs.iter().any(|v| !matches!(v.body, VBody::Unit) && v.as_type.is_some()) {
                    out.insert("as_on_variant_with_payload".to_string());
                }
                if vs.iter().any(|v| matches!(v.body, VBody::Unit) && v.as_type.is_some()) {
                    out.insert("as_on_unit_variant".to_string());
                }
                if vs.iter().any(|v| matches!(&v.body, VBody::Tuple(fs) if !fs.is_empty() && fs.iter().all(|f| f.skip))) {
                    out.insert("tuple_variant_all_fields_skipped".to_string());
                }
                if td.attrs.repr() == Repr::Internal {
                    for v in vs {
                        if let VBody::Newtype(f) = &v.body {
                            if let TyExpr::User(j, _) = &f.ty {
                                if matches!(self.types[*j].body, Body::Enum(_)) {
                                    out.insert("internal_newtype_variant_with_enum_payload".to_string());
                                }
                            }
                            if f.inline {
                                out.insert("internal_newtype_variant_payload_inlined".to_string());
                            }
                        }
                    }
                }
            }
            if !td.expected_path().ends_with(".ts") {
                out.insert("export_to_file_without_ts_suffix".to_string());
            }
            if td.is_generic() {
                out.insert("generic".to_string());
            }
            if td.params.iter().any(|p| p.ts_bound) {
                out.insert("type_parameter_only_in_skipped_marker".to_string());
            }
            if let Body::Enum(vs) = &td.body {
                if td.attrs.repr() == Repr::Internal && vs.iter().any(|v| matches!(&v.body, VBody::Newtype(f) if matches!(f.ty, TyExpr::Param(_)))) {
                    out.insert("internal_newtype_variant_bare_parameter".to_string());
                }
            }
            let nconc = td.params.iter().filter(|p| p.concrete.is_some()).count();
            if nconc >= 1 {
                out.insert("concrete".to_string());
            }
            if nconc >= 2 {
                out.insert(if td.ident.len() % 3 != 0 { "concrete_split_over_two_attributes" } else { "concrete_two_in_one_list" }.to_string());
            }
            if td.params.iter().any(|p| p.concrete.is_some() && p.default.is_some()) {
                out.insert("concrete_and_default_on_one_parameter".to_string());
            }
            if !td.consts.is_empty() && td.const_default && !td.const_first {
                out.insert("const_default_instantiated_elsewhere".to_string());
            }
            if td.params.iter().any(|p| p.default.is_some()) {
                out.insert("param_default".into());
            }
            if td.docs.is_some() {
                out.insert("docs_container".into());
            }
            if td.attrs.rename.is_some() {
                out.insert("rename_container".into());
            }
            if td.attrs.export_to.is_some() {
                out.insert("export_to".into());
            }
            if td.attrs.optional_fields.is_some() {
                out.insert("optional_fields".into());
            }
            if let Some(r) = td.attrs.rename_all {
                out.insert(format!("rename_all:{}", r.as_str()));
            }
            if td.attrs.rename_all_fields.is_some() {
                out.insert("rename_all_fields".into());
            }
            match &td.body {
                Body::Unit => {
                    out.insert("struct_unit".into());
                }
                Body::Newtype(_) => {
                    out.insert("struct_newtype".into());
                }
                Body::Tuple(fs) => {
                    out.insert(if fs.is_empty() { "struct_empty_tuple".into() } else { "struct_tuple".to_string() });
                }
                Body::Named(fs) => {
                    out.insert(if fs.is_empty() { "struct_empty_named".into() } else { "struct_named".to_string() });
                    if fs.iter().filter(|f| f.flatten).count() == 1 && fs.iter().filter(|f| !f.flatten && !f.skip).count() == 0 {
                        if let Some(i) = fs.iter().find(|f| f.flatten).and_then(|f| crate::flatten_target(&f.ty)) {
                            if matches!(&self.types[i].body, Body::Named(g) if g.len() >= 2 && g.iter().all(|f| f.flatten)) {
                                out.insert("flatten_tower".to_string());
                            }
                        }
                    }
                    if !fs.is_empty() && fs.iter().all(|f| f.flatten) {
                        out.insert(if fs.len() == 1 { "struct_of_one_flattened_field" } else { "struct_of_flattened_fields_only" }.to_string());
                    }
                    if td.attrs.tag.is_some() {
                        out.insert("struct_tag".into());
                    }
                }
                Body::Enum(vs) => {
                    out.insert(format!("enum_{:?}", td.attrs.repr()).to_lowercase());
                    for v in vs {
                        out.insert(
                            match &v.body {
                                VBody::Unit => "variant_unit",
                                VBody::Newtype(_) => "variant_newtype",
                                VBody::Tuple(_) => "variant_tuple",
                                VBody::Named(_) => "variant_struct",
                            }
                            .to_string(),
                        );
                        if v.untagged {
                            out.insert("variant_untagged".into());
                        }
                        if v.skip {
                            out.insert("variant_skip".into());
                        }
                        if v.rename.is_some() {
                            out.insert("variant_rename".into());
                        }
                        if v.rename_all.is_some() {
                            out.insert("variant_rename_all".into());
                        }
                        if v.docs.is_some() {
                            out.insert("docs_variant".into());
                        }
                    }
                }
            }
            for f in td.all_fields() {
                if f.flatten {
                    out.insert("flatten".into());
                }
                if f.inline {
                    out.insert("inline".into());
                }
                if f.skip {
                    out.insert("field_skip".into());
                }
                if f.rename.is_some() {
                    out.insert("field_rename".into());
                }
                if let Some(n) = f.optional {
                    out.insert(if n { "optional_nullable".into() } else { "optional".to_string() });
                }
                if f.type_override.is_some() {
                    out.insert("type_override".into());
                }
                if f.as_same {
                    out.insert("as".into());
                }
                if f.docs.is_some() {
                    out.insert("docs_field".into());
                }
                if matches!(f.ty, TyExpr::SelfRef(_)) {
                    out.insert("self_reference".into());
                }
                if let Some(id) = &f.ident {
                    if id.starts_with("r#") {
                        out.insert("raw_ident".into());
                    }
                    if !id.is_ascii() {
                        out.insert("non_ascii_ident".into());
                    }
                }
                fn walk(t: &TyExpr, out: &mut std::collections::BTreeSet<String>, depth: u32) {
                    if depth >= 2 {
                        out.insert("nesting_depth>=2".into());
                    }
                    match t {
                        TyExpr::User(_, args) => {
                            out.insert("user_ref".into());
                            if !args.is_empty() {
                                out.insert("generic_instantiation_in_field".into());
                            }
                            args.iter().for_each(|a| walk(a, out, depth + 1));
                        }
                        TyExpr::Option(t) | TyExpr::Vec(t) | TyExpr::Array(t, _) | TyExpr::Wrap(_, t) => walk(t, out, depth + 1),
                        TyExpr::Tuple(ts) => {
                            out.insert("tuple_type".into());
                            ts.iter().for_each(|a| walk(a, out, depth + 1))
                        }
                        TyExpr::Map(k, v, _) => {
                            out.insert("map".into());
                            walk(k, out, depth + 1);
                            walk(v, out, depth + 1);
                        }
                        TyExpr::Lib(n, args) => {
                            out.insert(format!("lib:{}", n.rsplit("::").next().unwrap_or(n)));
                            args.iter().for_each(|a| walk(a, out, depth + 1));
                        }
                        _ => (),
                    }
                }
                walk(&f.ty, &mut out, 0);
            }
        }
        out.into_iter().collect()
    }

    /// non-trivial by the C01 rule: an attribute from {rename*, tag, content, untagged, skip,
    /// flatten, optional, inline, as, type}, a generic, or a nested user type
    pub fn nontrivial(&self) -> bool {
        self.labels().iter().any(|l| {
            l.starts_with("rename") || l.starts_with("enum_") && l != "enum_external" || l.starts_with("variant_") && l != "variant_unit"
                || matches!(l.as_str(), "struct_tag" | "flatten" | "inline" | "field_skip" | "field_rename" | "optional" | "optional_nullable" | "optional_fields" | "type_override" | "as" | "generic" | "user_ref")
        })
    }
}
