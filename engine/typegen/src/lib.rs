//! Program generator: modules of mutually related Rust type definitions in the fragment that
//! serde and ts-rs both support, rendered to Rust source together with value generators
//! (`impl rt::Gen`) and registry lines. All randomness comes from a word tape (`&[u32]`) that
//! the driver obtains from a proptest strategy, so a module is a pure function of seed and
//! profile.

pub mod model;
pub mod render;

pub use model::*;

pub struct Tape<'a> {
    w: &'a [u32],
    pos: usize,
}

impl<'a> Tape<'a> {
    pub fn new(w: &'a [u32]) -> Self {
        Tape { w, pos: 0 }
    }
    pub fn word(&mut self) -> u32 {
        let v = self.w.get(self.pos).copied().unwrap_or(0);
        self.pos += 1;
        v
    }
    pub fn choose(&mut self, n: usize) -> usize {
        if n <= 1 {
            self.pos += 1;
            return 0;
        }
        ((self.word() as u64 * n as u64) >> 32) as usize
    }
    /// true with probability p percent (an exhausted tape says no)
    pub fn pct(&mut self, p: u32) -> bool {
        (((self.word() as u64) * 100) >> 32) < p as u64 && self.pos <= self.w.len()
    }
    pub fn pick<'b, T>(&mut self, xs: &'b [T]) -> &'b T {
        &xs[self.choose(xs.len())]
    }
    /// weighted choice
    pub fn weighted(&mut self, weights: &[u32]) -> usize {
        let total: u32 = weights.iter().sum();
        if total == 0 {
            return 0;
        }
        let mut x = ((self.word() as u64 * total as u64) >> 32) as u32;
        for (i, w) in weights.iter().enumerate() {
            if x < *w {
                return i;
            }
            x -= w;
        }
        weights.len() - 1
    }
}

/// Weights (percent) of the generator; one profile per property family.
#[derive(Clone, Debug)]
pub struct Profile {
    pub name: &'static str,
    pub max_types: usize,
    pub generics: u32,
    pub unusual_idents: u32,
    pub rename: u32,
    pub rename_all: u32,
    pub special_strings: u32,
    /// allow `"`, `\`, newline and the empty string in rename/tag/content values
    pub escape_strings: bool,
    pub docs: u32,
    /// doc texts that can break containment (`*/`, blank line in block comment)
    pub nasty_docs: bool,
    pub export_to: u32,
    pub shared_files: u32,
    pub flatten: u32,
    pub inline: u32,
    pub optional: u32,
    pub skip: u32,
    pub type_override: u32,
    pub as_attr: u32,
    pub recursion: u32,
    pub user_refs: u32,
    pub enums: u32,
    /// derive serde + generate values
    pub serde: bool,
    pub library_types: bool,
    /// generate `struct S(#[serde(skip)] T);` although it is a known finding
    pub known_newtype_skip: bool,
    /// avoid leaf types serde's internal Content buffer cannot deserialise (128-bit integers,
    /// integer/bool map keys): used where witnesses are DEserialised (C02)
    pub serde_buffer_safe: bool,
    /// allow `#[ts(inline)]` of generics whose parameter default is a user type (known finding)
    pub known_inline_default: bool,
    /// no `../` in export_to (import specifiers then do not depend on the base directory)
    pub no_parent_escape: bool,
    /// keep `export type ..` out of field/variant docs (known finding of the same-file merge)
    pub doc_merge_safe: bool,
    /// generate PhantomData<T> / Weak<T> although their bindings are listed known findings
    pub known_wrappers: bool,
    /// only externally tagged enums, no per-variant untagged (nothing goes through serde's
    /// Content buffer)
    pub external_only: bool,
    /// percentage of enums that are plain unit enums (usable as map keys / set elements)
    pub unit_enum_bias: u32,
    /// keep empty lines inside block-style docs (a listed finding of the same-file merge)
    pub blank_block_lines: bool,
    /// instantiate bare parameters of `optional_fields` structs with Option types (known finding)
    pub known_optional_fields_generic: bool,
    /// lifetimes, const parameters, `concrete(..)`, defaults that mention earlier parameters,
    /// up to three type parameters (TS-only modules)
    pub rich_generics: bool,
    /// percentage of modules in which one type's TypeScript name is made an extension of
    /// another's (`Shape` / `ShapeList`) and both are put in one file
    pub prefix_names: u32,
    /// percentage of modules in which two distinct types get the *same* TypeScript name in
    /// different files (never both used by one declaration)
    pub twin_names: u32,
    /// block-style docs and line docs whose lines start in column 0 (percentage of lines)
    pub doc_col0: u32,
    /// percentage of modules that get a "tower": a struct whose only field flattens a struct
    /// made only of two or three flattened enums / structs
    pub flatten_tower: u32,
    /// the feature-gated third-party types (chrono, uuid, url, indexmap, heapless, bytes, ..)
    pub ext_types: bool,
    /// percentage of modules that get a reference cycle between two definitions
    /// (`A { .., back: Option<Box<B>> }` where B already refers to A)
    pub cycles: u32,
    /// percentage of type names taken from a pool of very long names
    pub long_names: u32,
    /// percentage of non-unit variants that get `#[ts(as = "..")]` naming another type (only
    /// where no values are compared: the binding then describes that type, not the variant)
    pub variant_as: u32,
    /// generate `bson::oid::ObjectId` although its binding is a listed finding
    pub known_objectid: bool,
    /// let an internally tagged newtype variant hold a unit struct by name (known finding)
    pub known_internal_unit_by_name: bool,
    /// percentage of modules laid out as one `index.ts` per directory (every file has the same
    /// name; the directories are ancestors / descendants / siblings of each other)
    pub index_layout: u32,
    /// percentage of plain fields that get `#[ts(as = "<another user type>")]`, now and then with
    /// `inline` (only where no values are compared)
    pub field_as: u32,
    /// percentage of field types that are `Result<A, B>` over the ordinary type expressions
    pub result_types: u32,
}

impl Profile {
    pub fn base(name: &'static str) -> Profile {
        Profile {
            name,
            max_types: 5,
            generics: 25,
            unusual_idents: 30,
            rename: 12,
            rename_all: 30,
            special_strings: 40,
            escape_strings: false,
            docs: 8,
            nasty_docs: false,
            export_to: 0,
            shared_files: 0,
            flatten: 12,
            inline: 12,
            optional: 30,
            skip: 7,
            type_override: 3,
            as_attr: 3,
            recursion: 6,
            user_refs: 30,
            enums: 45,
            serde: true,
            library_types: false,
            known_newtype_skip: false,
            serde_buffer_safe: false,
            known_inline_default: false,
            no_parent_escape: false,
            doc_merge_safe: false,
            known_wrappers: false,
            external_only: false,
            unit_enum_bias: 0,
            blank_block_lines: false,
            known_optional_fields_generic: false,
            rich_generics: false,
            prefix_names: 0,
            twin_names: 0,
            doc_col0: 20,
            flatten_tower: 0,
            ext_types: false,
            cycles: 0,
            long_names: 0,
            variant_as: 0,
            known_objectid: false,
            known_internal_unit_by_name: false,
            index_layout: 0,
            field_as: 0,
            result_types: 0,
        }
    }
}

const PRIMS: &[&str] = &[
    "i32", "u8", "u64", "i64", "f64", "bool", "String", "char", "u16", "i8", "f32", "usize", "u128", "i128", "u32", "isize", "()",
];
const CONVENTIONAL_FIELDS: &[&str] = &[
    "id", "name", "first_name", "last_name", "count", "is_active", "created_at", "value", "items", "data", "kind_of", "x", "y",
    "user_id", "email_address", "inner", "payload", "flag", "total_count", "http_status", "a", "b", "c", "d", "left", "right",
];
const UNUSUAL_FIELDS: &[&str] = &[
    "fooBar", "FooBar", "_x", "x_", "a__b", "r#type", "r#fn", "r#match", "größe", "ünï_cödé", "中文", "HTTPServer", "getHTTP_response",
    "a1", "_1", "A", "aB", "Ab_cD", "r#async", "field_9_z", "snake_Case_Mixed", "r#struct", "ß", "__x", "r#enum", "r#Self_",
    "string", "number", "never", "null", "undefined", "r#in", "r#for", "r#let",
];
const CONVENTIONAL_VARIANTS: &[&str] = &[
    "Alpha", "Beta", "Gamma", "Delta", "HttpError", "NotFound", "Ok2", "Empty", "Leaf", "Node", "Pair", "Named", "First", "Second",
];
const UNUSUAL_VARIANTS: &[&str] = &[
    "Foo_Bar", "fooBar", "foo_bar", "HTTPError", "A", "a", "X1", "r#type", "Ärger", "中", "_U", "V_", "A__B", "SCREAMING_CASE",
    "r#fn", "camelCaseVariant", "Z9z",
];
const TYPE_NAMES: &[&str] = &[
    "User", "Account", "Item", "Point", "Shape", "Event", "Config", "Wrapper", "Pair", "Tree", "Msg", "Status", "Inner", "Outer",
    "Payload", "Record_", "Entry", "Page", "Page2", "Foo", "FooBar", "Bar", "Baz", "AnExtraordinarilyLongTypeNameForTheSakeOfLineWidth",
    "AnotherRatherLongTypeNameThatGoesOnAndOnAndOn",
];
/// names long enough for an import statement to exceed a formatter's line width
const LONG_TYPE_NAMES: &[&str] = &[
    "AnExtraordinarilyLongTypeNameForTheSakeOfLineWidth", "AnotherRatherLongTypeNameThatGoesOnAndOnAndOn", "YetAnotherVeryLongTypeNameForImportStatements",
    "TheFourthUnreasonablyLongTypeNameOfThisModule", "ALongNameButNotTheLongestOneInThePoolOfNames", "SomethingDescriptiveAndThereforeLongAsTypeName",
];
const UNUSUAL_TYPE_NAMES: &[&str] = &["r#type_", "Größe", "T_1", "_Hidden", "Ünï", "snake_type", "X", "Zz", "r#Match"];
const RENAME_PLAIN: &[&str] = &["renamed", "Other", "x2", "camelName", "snake_name", "ID"];
const RENAME_SPECIAL: &[&str] = &["kebab-name", "with space", "1leading", "dollar$", "ünï", "a.b", "a/b", "@at", "#hash", "in", "中文", "x²", "a½b", "Ⅷ", "x٣", "preis€", "a\u{a0}b", ""];
const RENAME_ESCAPE: &[&str] = &["quo\"te", "back\\slash", "new\nline", "tab\there", "a\"b\\c"];
const TAGS: &[&str] = &["tg", "kind_", "$t", "t-g", "T G", "ŧ", "__tag", "event_type", "msg_kind", "TagName"];
const CONTENTS: &[&str] = &["ct", "content_", "$c", "c-t", "C T", "ç", "__content", "event_data", "msg_body", "ContentName"];
const DOC_LINES: &[&str] = &[
    " A plain doc line.",
    " second line, with `code` and <html>",
    " export type Fake = number;",
    " import type { X } from \"./x\";",
    " quotes \" ' and backslash \\ here",
    " ünïcödé 中文 text",
    " /* an opener inside",
    " @deprecated since 1.0",
    "",
    " trailing spaces   ",
    " a very long line: Lorem ipsum dolor sit amet, consectetur adipiscing elit, sed do eiusmod tempor incididunt ut labore et dolore magna aliqua. Ut enim ad minim veniam, quis nostrud exercitation ullamco laboris nisi ut aliquip ex ea commodo consequat.",
    " glob src/**/mod.rs",
    " format placeholders {0} {1} {2} and {{doubled}} braces",
    " json like {\"a\": [1, 2]} in a doc",
    " percent %s and dollar ${x} and `${y}`",
    " 1) an item, closed but never opened :)",
    " closing ] and } without openers",
    " opens ( [ { and leaves them open",
    " a 3.5\" disk",
];
const DOC_NASTY: &[&str] = &[" closes */ early", " glob **/*.rs here", " */"];

pub struct Names {
    used: std::collections::BTreeSet<String>,
    counter: usize,
}

impl Names {
    fn new() -> Self {
        Names { used: Default::default(), counter: 0 }
    }
    /// a name that has not been used in this module (compared without `r#`, case-insensitively
    /// and without underscores so that case conversions cannot make two names collide)
    fn fresh(&mut self, t: &mut Tape, pools: &[&[&str]], weights: &[u32], fallback: &str) -> String {
        for _ in 0..6 {
            let pool = pools[t.weighted(weights)];
            let cand = *t.pick(pool);
            if self.claim(cand) {
                return cand.to_string();
            }
        }
        loop {
            self.counter += 1;
            let cand = format!("{fallback}{}", self.counter);
            if self.claim(&cand) {
                return cand;
            }
        }
    }
    pub fn key(s: &str) -> String {
        s.trim_start_matches("r#").replace(['_', '-', ' '], "").to_lowercase()
    }
    fn claim(&mut self, s: &str) -> bool {
        let k = Self::key(s);
        if k.is_empty() {
            return self.used.insert(format!("<{s}>"));
        }
        self.used.insert(k)
    }
}

struct Cx<'p> {
    p: &'p Profile,
    names: Names,
    types: Vec<TypeDef>,
    /// definitions already flattened into the container (struct / struct variant) being generated
    flattened_here: std::collections::BTreeSet<usize>,
    doc_counter: usize,
    used_files: std::collections::BTreeSet<String>,
    /// every named field that can be a flattened field becomes one
    force_flatten: bool,
    /// names (case-folded) of all variants generated so far: a flattened externally tagged enum
    /// writes its variant name as a key next to the fields of the struct it is flattened into
    variant_keys_seen: std::collections::BTreeSet<String>,
    /// .. and the names of all named fields generated so far
    field_keys_seen: std::collections::BTreeSet<String>,
}

fn has_default(ty: &TyExpr) -> bool {
    match ty {
        TyExpr::Prim(_) => true,
        TyExpr::Option(_) | TyExpr::Vec(_) | TyExpr::Map(..) => true,
        TyExpr::Tuple(ts) => ts.iter().all(has_default),
        TyExpr::Array(t, n) => *n <= 32 && has_default(t),
        TyExpr::Wrap(w, t) => matches!(*w, "Box" | "Rc" | "Arc" | "Cell" | "RefCell" | "Mutex") && has_default(t),
        TyExpr::Lib(n, _) => matches!(*n, "std::collections::HashSet" | "std::collections::BTreeSet" | "std::marker::PhantomData" | "std::path::PathBuf"),
        _ => false,
    }
}

fn mentions_user(ty: &TyExpr) -> bool {
    match ty {
        TyExpr::User(..) => true,
        TyExpr::Prim(_) | TyExpr::Param(_) | TyExpr::SelfRef(_) => false,
        TyExpr::Option(t) | TyExpr::Vec(t) | TyExpr::Array(t, _) | TyExpr::Wrap(_, t) => mentions_user(t),
        TyExpr::Tuple(ts) => ts.iter().any(mentions_user),
        TyExpr::Map(k, v, _) => mentions_user(k) || mentions_user(v),
        TyExpr::Lib(_, args) => args.iter().any(mentions_user),
    }
}

/// the definition a flattened field merges into its parent (through transparent wrappers)
pub fn flatten_target(ty: &TyExpr) -> Option<usize> {
    match ty {
        TyExpr::User(i, _) => Some(*i),
        TyExpr::Wrap(_, t) => flatten_target(t),
        _ => None,
    }
}

fn contains_tuple(ty: &TyExpr) -> bool {
    match ty {
        TyExpr::Tuple(_) => true,
        TyExpr::Prim(_) | TyExpr::Param(_) | TyExpr::SelfRef(_) => false,
        TyExpr::Option(t) | TyExpr::Vec(t) | TyExpr::Array(t, _) | TyExpr::Wrap(_, t) => contains_tuple(t),
        TyExpr::Map(k, v, _) => contains_tuple(k) || contains_tuple(v),
        TyExpr::User(_, args) => args.iter().any(contains_tuple),
        // ranges cannot be inlined either ("cannot be inlined")
        TyExpr::Lib(n, args) => n.contains("Range") || args.iter().any(contains_tuple),
    }
}

/// serde_derive itself panics (byte slice at 1) when camelCase meets a name whose first letter
/// is not ASCII; such a program does not derive serde at all. Prefix those names.
fn sanitize_for_serde_camel(td: &mut TypeDef) {
    fn bad(id: &str) -> bool {
        id.trim_start_matches("r#").chars().find(|c| *c != '_').map_or(true, |c| !c.is_ascii())
    }
    fn fix_fields(fs: &mut [Field]) {
        for f in fs {
            if let Some(id) = &f.ident {
                if bad(id) {
                    f.ident = Some(format!("x_{}", id.trim_start_matches("r#")));
                }
            }
        }
    }
    let container = td.attrs.rename_all == Some(Rule::Camel);
    let raf = td.attrs.rename_all_fields == Some(Rule::Camel);
    match &mut td.body {
        Body::Named(fs) if container => fix_fields(fs),
        Body::Enum(vs) => {
            for v in vs {
                if container && bad(&v.ident) {
                    v.ident = format!("X{}", v.ident.trim_start_matches("r#"));
                }
                if let VBody::Named(fs) = &mut v.body {
                    if raf || v.rename_all == Some(Rule::Camel) {
                        fix_fields(fs);
                    }
                }
            }
        }
        _ => (),
    }
}

fn is_copy(ty: &TyExpr) -> bool {
    matches!(ty, TyExpr::Prim(p) if *p != "String")
}

impl Cx<'_> {
    /// flattenable and without type parameters (usable as `User(idx, [])`)
    fn flattenable(&self, idx: usize) -> bool {
        self.types[idx].params.is_empty() && self.flattenable_generic(idx)
    }

    /// a definition whose values are all written as JSON objects - possibly a generic one (the
    /// arguments do not matter: a parameter is only ever the type of a field or of a payload)
    fn flattenable_generic(&self, idx: usize) -> bool {
        let td = &self.types[idx];
        if !td.lifetimes.is_empty() || !td.consts.is_empty() {
            return false;
        }
        // an internally tagged newtype variant around a bare parameter needs an object there
        if td.attrs.repr() == Repr::Internal && td.all_fields().iter().any(|f| matches!(f.ty, TyExpr::Param(_))) && matches!(td.body, Body::Enum(_)) {
            let bare_newtype = matches!(&td.body, Body::Enum(vs) if vs.iter().any(|v| matches!(&v.body, VBody::Newtype(f) if matches!(f.ty, TyExpr::Param(_)))));
            if bare_newtype {
                return false;
            }
        }
        // without serde in the module nothing is serialised: whatever ts-rs accepts goes
        let ts_only = !self.p.serde;
        match &td.body {
            // (a struct all of whose fields are skipped is written as nothing: fine as well)
            Body::Named(fs) => !fs.is_empty() && td.attrs.type_override.is_none(),
            // flattening an enum: serde needs every value to serialise as a map
            Body::Enum(vs) => {
                !vs.is_empty()
                    && match td.attrs.repr() {
                        // (a newtype variant whose field is skipped is written like a unit variant)
                        // (an `untagged` variant is written as its payload alone: only a
                        // struct variant is a map then)
                        Repr::External => vs.iter().filter(|v| !v.skip).all(|v| match &v.body {
                            VBody::Unit => false,
                            VBody::Newtype(f) => !f.skip && (!v.untagged || ts_only),
                            VBody::Named(_) => true,
                            _ => !v.untagged || ts_only,
                        }),
                        Repr::Internal | Repr::Adjacent => vs.iter().all(|v| !v.untagged || ts_only),
                        Repr::Untagged => ts_only && vs.iter().filter(|v| !v.skip).all(|v| !matches!(v.body, VBody::Unit)),
                    }
            }
            _ => false,
        }
    }

    fn struct_like(&self, idx: usize) -> bool {
        let td = &self.types[idx];
        td.params.is_empty() && td.lifetimes.is_empty() && td.consts.is_empty() && matches!(&td.body, Body::Named(fs) if fs.iter().any(|f| !f.skip && !f.flatten)) && td.attrs.tag.is_none()
    }

    fn unit_enum(&self, idx: usize) -> bool {
        let td = &self.types[idx];
        td.params.is_empty()
            && td.lifetimes.is_empty()
            && td.consts.is_empty()
            && td.attrs.repr() == Repr::External
            && matches!(&td.body, Body::Enum(vs) if !vs.is_empty() && vs.iter().all(|v| matches!(v.body, VBody::Unit) && !v.skip && !v.untagged))
    }

    fn mentions_generic_with_user_default(&self, ty: &TyExpr) -> bool {
        match ty {
            TyExpr::User(i, args) => {
                self.types[*i].params.iter().any(|p| matches!(p.default, Some(TyExpr::User(..))))
                    || args.iter().any(|a| self.mentions_generic_with_user_default(a))
            }
            TyExpr::Prim(_) | TyExpr::Param(_) | TyExpr::SelfRef(_) => false,
            TyExpr::Option(t) | TyExpr::Vec(t) | TyExpr::Array(t, _) | TyExpr::Wrap(_, t) => self.mentions_generic_with_user_default(t),
            TyExpr::Tuple(ts) => ts.iter().any(|t| self.mentions_generic_with_user_default(t)),
            TyExpr::Map(k, v, _) => self.mentions_generic_with_user_default(k) || self.mentions_generic_with_user_default(v),
            TyExpr::Lib(_, args) => args.iter().any(|t| self.mentions_generic_with_user_default(t)),
        }
    }

    fn gen_user(&mut self, t: &mut Tape, params: &[Param], depth: u32) -> Option<TyExpr> {
        if self.types.is_empty() {
            return None;
        }
        let idx = t.choose(self.types.len());
        Some(self.gen_user_at(t, params, depth, idx))
    }

    /// the definition `idx` with generated type arguments
    fn gen_user_at(&mut self, t: &mut Tape, params: &[Param], depth: u32, idx: usize) -> TyExpr {
        let n = self.types[idx].params.len();
        let mut args = vec![];
        for k in 0..n {
            match self.types[idx].params[k].concrete.clone() {
                Some(c) => args.push(c),
                None => {
                    // now and then a user type inside a container as argument (`Wrapper<Vec<Leaf>>`):
                    // the argument's own type arguments are dependencies as well
                    let plain: Vec<usize> = (0..idx).filter(|i| self.types[*i].params.is_empty() && self.types[*i].lifetimes.is_empty() && self.types[*i].consts.is_empty()).collect();
                    if !plain.is_empty() && t.pct(20) {
                        let u = TyExpr::User(*t.pick(&plain), vec![]);
                        args.push(if t.pct(50) { TyExpr::Vec(Box::new(u)) } else { TyExpr::Option(Box::new(u)) });
                    } else {
                        args.push(self.gen_ty_inner(t, params, depth + 1, true));
                    }
                }
            }
        }
        // `optional_fields` decides the `?` on the concrete argument: an Option argument for a bare
        // parameter would need skip_serializing_if on a field that is not an Option in the source
        if self.types[idx].attrs.optional_fields.is_some() {
            let td = &self.types[idx];
            for (k, p) in td.params.iter().enumerate() {
                let bare = td.all_fields().iter().any(|f| matches!(&f.ty, TyExpr::Param(n) if *n == p.name));
                if bare {
                    while let TyExpr::Option(inner) = &args[k] {
                        args[k] = (**inner).clone();
                    }
                    if matches!(args[k], TyExpr::Param(_)) {
                        args[k] = TyExpr::Prim("i32");
                    }
                }
            }
        }
        TyExpr::User(idx, args)
    }

    fn gen_key(&mut self, t: &mut Tape) -> TyExpr {
        let unit_enums: Vec<usize> = (0..self.types.len()).filter(|i| self.unit_enum(*i)).collect();
        let ints = if self.p.serde_buffer_safe { 0 } else { 1 };
        // (`char` keys: TypeScript can only say `string`, and a witness key longer than one
        // character is rejected by serde - kept out where witnesses are deserialised)
        match t.weighted(&[40, 12 * ints, 8 * ints, 8 * ints, 6 * ints, 6 * ints, if unit_enums.is_empty() { 0 } else { 30 }]) {
            0 => TyExpr::Prim("String"),
            1 => TyExpr::Prim("i32"),
            2 => TyExpr::Prim("u8"),
            3 => TyExpr::Prim("u64"),
            4 => TyExpr::Prim("char"),
            5 => TyExpr::Prim("bool"),
            _ => {
                let k = TyExpr::User(*t.pick(&unit_enums), vec![]);
                // a key behind a transparent wrapper (`BTreeMap<Box<Region>, _>`)
                if t.pct(50) {
                    TyExpr::Wrap(*t.pick(&["Box", "Rc", "Arc"]), Box::new(k))
                } else {
                    k
                }
            }
        }
    }

    fn gen_ty(&mut self, t: &mut Tape, params: &[Param]) -> TyExpr {
        if self.p.library_types && t.pct(65) {
            return self.gen_lib(t, params, 0);
        }
        if self.p.result_types > 0 && t.pct(self.p.result_types) {
            let a = self.gen_ty_inner(t, params, 1, false);
            let b = self.gen_ty_inner(t, params, 1, false);
            let r = TyExpr::Lib("Result", vec![a, b]);
            return if t.pct(30) { TyExpr::Vec(Box::new(r)) } else { r };
        }
        self.gen_ty_inner(t, params, 0, false)
    }

    /// element types usable in sets / as range bounds
    fn gen_ord_hash(&mut self, t: &mut Tape) -> TyExpr {
        let unit_enums: Vec<usize> = (0..self.types.len()).filter(|i| self.unit_enum(*i)).collect();
        if !unit_enums.is_empty() && t.pct(35) {
            return TyExpr::User(*t.pick(&unit_enums), vec![]);
        }
        TyExpr::Prim(*t.pick(&["i32", "u8", "String", "char", "bool", "u64", "i64"]))
    }

    /// a feature-gated third-party type (C12, `ext` slot configuration)
    fn gen_ext(&mut self, t: &mut Tape, params: &[Param], depth: u32) -> TyExpr {
        match t.weighted(&[25, 30, if self.p.known_objectid { 6 } else { 0 }, 8, 8, 8, 8, 4]) {
            0 => TyExpr::Lib(
                *t.pick(&[
                    "chrono::NaiveDateTime", "chrono::NaiveDate", "chrono::NaiveTime", "chrono::Month", "chrono::Weekday",
                    "chrono::DateTime<chrono::Utc>", "chrono::DateTime<chrono::FixedOffset>",
                ]),
                vec![],
            ),
            1 => TyExpr::Lib(
                *t.pick(&[
                    "bigdecimal::BigDecimal", "uuid::Uuid", "url::Url", "semver::Version", "smol_str::SmolStr", "ordered_float::OrderedFloat<f64>",
                    "ordered_float::OrderedFloat<f32>", "bson::Uuid", "bytes::Bytes", "bytes::BytesMut", "serde_json::Number",
                ]),
                vec![],
            ),
            2 => TyExpr::Lib("bson::oid::ObjectId", vec![]),
            3 => TyExpr::Lib("indexmap::IndexSet", vec![self.gen_ord_hash(t)]),
            4 => {
                let k = self.gen_key(t);
                let v = self.gen_ty_inner(t, params, depth + 1, depth >= 1);
                TyExpr::Lib("indexmap::IndexMap", vec![k, v])
            }
            5 => TyExpr::Lib("heapless::Vec", vec![self.gen_ty_inner(t, params, depth + 1, depth >= 1)]),
            6 => TyExpr::Lib("serde_json::Value", vec![]),
            _ => TyExpr::Lib("serde_json::Map<String, serde_json::Value>", vec![]),
        }
    }

    /// a library type expression (C12), arguments drawn from the ordinary generator
    fn gen_lib(&mut self, t: &mut Tape, params: &[Param], depth: u32) -> TyExpr {
        if self.p.ext_types && t.pct(40) {
            return self.gen_ext(t, params, depth);
        }
        let arg = |cx: &mut Self, t: &mut Tape| {
            if depth < 2 && t.pct(40) {
                cx.gen_lib(t, params, depth + 1)
            } else {
                cx.gen_ty_inner(t, params, depth + 1, depth >= 1)
            }
        };
        match t.weighted(&[12, 10, 8, 8, 6, 6, 5, 5, 5, 6, 6, 8, 5, 4, 3, 3]) {
            0 => TyExpr::Lib(
                *t.pick(&[
                    "std::num::NonZeroU8", "std::num::NonZeroI8", "std::num::NonZeroU16", "std::num::NonZeroI16", "std::num::NonZeroU32",
                    "std::num::NonZeroI32", "std::num::NonZeroU64", "std::num::NonZeroI64", "std::num::NonZeroUsize", "std::num::NonZeroIsize",
                    "std::num::NonZeroU128", "std::num::NonZeroI128",
                ]),
                vec![],
            ),
            1 => TyExpr::Lib(
                *t.pick(&[
                    "std::path::PathBuf", "std::net::IpAddr", "std::net::Ipv4Addr", "std::net::Ipv6Addr", "std::net::SocketAddr",
                    "std::net::SocketAddrV4", "std::net::SocketAddrV6",
                ]),
                vec![],
            ),
            2 => TyExpr::Lib("std::collections::HashSet", vec![self.gen_ord_hash(t)]),
            3 => TyExpr::Lib("std::collections::BTreeSet", vec![self.gen_ord_hash(t)]),
            4 => {
                let a = arg(self, t);
                let b = arg(self, t);
                TyExpr::Lib("Result", vec![a, b])
            }
            5 => TyExpr::Lib(*t.pick(&["std::ops::Range", "std::ops::RangeInclusive"]), vec![TyExpr::Prim(*t.pick(&["i32", "u64", "f64", "usize", "char"]))]),
            6 => TyExpr::Lib("std::sync::RwLock", vec![arg(self, t)]),
            7 => TyExpr::Lib("std::borrow::Cow", vec![TyExpr::Prim("str")]),
            8 => {
                if t.pct(50) {
                    TyExpr::Lib("Box", vec![TyExpr::Prim("str")])
                } else {
                    let a = arg(self, t);
                    TyExpr::Lib("Box", vec![TyExpr::Lib("[_]", vec![a])])
                }
            }
            9 => {
                // tuples of arity 1..=10
                let n = 1 + t.choose(10);
                TyExpr::Tuple((0..n).map(|_| self.gen_ty_inner(t, params, depth + 2, true)).collect())
            }
            10 => {
                // arrays up to serde's limit
                let n = *t.pick(&[0usize, 1, 2, 5, 16, 31, 32]);
                TyExpr::Array(Box::new(self.gen_ty_inner(t, params, depth + 2, true)), n)
            }
            11 => {
                let k = self.gen_key(t);
                let v = arg(self, t);
                TyExpr::Map(Box::new(k), Box::new(v), t.pct(50))
            }
            12 => TyExpr::Option(Box::new(arg(self, t))),
            13 => TyExpr::Vec(Box::new(arg(self, t))),
            14 if self.p.known_wrappers => TyExpr::Lib("std::marker::PhantomData", vec![arg(self, t)]),
            15 if self.p.known_wrappers => TyExpr::Lib("std::sync::Weak", vec![arg(self, t)]),
            _ => TyExpr::Wrap(*t.pick(&["Box", "Rc", "Arc", "RefCell", "Mutex"]), Box::new(arg(self, t))),
        }
    }

    fn gen_ty_inner(&mut self, t: &mut Tape, params: &[Param], depth: u32, simple: bool) -> TyExpr {
        if depth >= 4 {
            let p = *t.pick(PRIMS);
            return TyExpr::Prim(if self.p.serde_buffer_safe && (p == "u128" || p == "i128") { "u64" } else { p });
        }
        let deep = depth >= 2 || simple;
        let w_user = if self.types.is_empty() { 0 } else if depth >= 2 { self.p.user_refs / 3 } else { self.p.user_refs };
        let w_param = if params.is_empty() { 0 } else { 18 };
        let w = [
            38,                          // 0 prim
            if deep { 4 } else { 14 },   // 1 option
            if deep { 4 } else { 12 },   // 2 vec
            w_user,                      // 3 user
            w_param,                     // 4 param
            if deep { 0 } else { 8 },    // 5 map
            if deep { 0 } else { 4 },    // 6 tuple
            if deep { 0 } else { 5 },    // 7 array
            if deep { 1 } else { 5 },    // 8 wrapper
        ];
        match t.weighted(&w) {
            0 => {
                let p = *t.pick(PRIMS);
                if self.p.serde_buffer_safe && (p == "u128" || p == "i128") {
                    TyExpr::Prim("u64")
                } else {
                    TyExpr::Prim(p)
                }
            }
            1 => TyExpr::Option(Box::new(self.gen_ty_inner(t, params, depth + 1, simple))),
            2 => TyExpr::Vec(Box::new(self.gen_ty_inner(t, params, depth + 1, simple))),
            3 => self.gen_user(t, params, depth).unwrap_or(TyExpr::Prim("i32")),
            4 => TyExpr::Param(t.pick(params).name.clone()),
            5 => {
                let k = self.gen_key(t);
                let v = self.gen_ty_inner(t, params, depth + 1, simple);
                TyExpr::Map(Box::new(k), Box::new(v), t.pct(50))
            }
            6 => {
                let n = 2 + t.choose(2);
                TyExpr::Tuple((0..n).map(|_| self.gen_ty_inner(t, params, depth + 1, true)).collect())
            }
            7 => {
                let n = *t.pick(&[0usize, 1, 2, 3]);
                let mut elem = self.gen_ty_inner(t, params, depth + 1, true);
                // the empty array of a container of a user type: `[]` mentions nobody
                if n == 0 && t.pct(50) {
                    if let Some(u) = self.gen_user(t, params, depth + 1) {
                        elem = match t.choose(3) {
                            0 => TyExpr::Vec(Box::new(u)),
                            1 => TyExpr::Option(Box::new(u)),
                            _ => TyExpr::Tuple(vec![TyExpr::Prim("u8"), u]),
                        };
                    }
                }
                TyExpr::Array(Box::new(elem), n)
            }
            _ => {
                let inner = self.gen_ty_inner(t, params, depth + 1, simple);
                let w = *t.pick(&["Box", "Rc", "Arc", "RefCell", "Mutex", "Cell"]);
                if w == "Cell" && !is_copy(&inner) {
                    TyExpr::Wrap("Box", Box::new(inner))
                } else {
                    TyExpr::Wrap(w, Box::new(inner))
                }
            }
        }
    }

    fn gen_doc(&mut self, t: &mut Tape) -> Option<Doc> {
        self.gen_doc_at(t, false)
    }

    /// `inner`: the doc sits inside a declaration body (field / variant)
    fn gen_doc_at(&mut self, t: &mut Tape, inner: bool) -> Option<Doc> {
        if !t.pct(self.p.docs) {
            return None;
        }
        let n = 1 + t.choose(3);
        let mut lines: Vec<String> = (0..n).map(|_| t.pick(DOC_LINES).to_string()).collect();
        // a unique marker per doc comment: lets the checks find the comment of an item without
        // having to predict the emitted property name
        self.doc_counter += 1;
        lines[0] = format!(" [doc#{}]{}", self.doc_counter, lines[0]);
        for l in lines.iter_mut().skip(1) {
            if l.starts_with(' ') && !l[1..].starts_with('/') && !l[1..].starts_with('!') && t.pct(self.p.doc_col0) {
                *l = l[1..].to_string();
            }
        }
        if inner && self.p.doc_merge_safe {
            lines.retain(|l| !l.contains("export type"));
            if lines.is_empty() {
                lines.push(" inner doc".into());
            }
        }
        if self.p.nasty_docs && t.pct(25) {
            lines.push(t.pick(DOC_NASTY).to_string());
        }
        let style = match t.weighted(&[55, 18, 17, 10]) {
            0 => DocStyle::Line,
            1 => DocStyle::Attr,
            2 => DocStyle::Block,
            _ => DocStyle::BlockThenAttrs,
        };
        if style == DocStyle::Block || style == DocStyle::BlockThenAttrs {
            // (rendered as one multi-line `#[doc = ".."]` attribute, so `*/` is allowed in it)
            if !self.p.nasty_docs {
                lines.retain(|l| !l.contains("*/"));
            }
            if !self.p.blank_block_lines {
                lines.retain(|l| !l.trim().is_empty());
            }
            if lines.is_empty() {
                lines.push(" block".into());
            }
        }
        if !lines.iter().any(|l| l.contains("[doc#")) {
            lines.insert(0, format!(" [doc#{}]", self.doc_counter));
        }
        // `#[doc = "/.."]`: a text that starts with a slash (right behind the `*` of the comment)
        if style != DocStyle::Line && t.pct(12) {
            let k = if style != DocStyle::Attr { 0 } else { t.choose(lines.len()) };
            lines[k] = format!("/{}", lines[k].trim_start());
        }
        Some(Doc { lines, style })
    }

    fn rename_string(&mut self, t: &mut Tape, local: &mut Names) -> String {
        // unique in the whole module: a flattened type and its parent must not end up with the
        // same key (serde would then write a duplicate key - a user error, not a binding defect)
        let _ = &local;
        let local = &mut self.names;
        let escape = self.p.escape_strings;
        let special = self.p.special_strings;
        for _ in 0..8 {
            let s = if escape && t.pct(20) {
                *t.pick(RENAME_ESCAPE)
            } else if t.pct(special) {
                *t.pick(RENAME_SPECIAL)
            } else {
                *t.pick(RENAME_PLAIN)
            };
            if local.claim(s) {
                return s.to_string();
            }
        }
        loop {
            local.counter += 1;
            let s = format!("ren{}", local.counter);
            if local.claim(&s) {
                return s;
            }
        }
    }

    /// definitions whose keys end up in the object of a container that flattens `idx`
    fn flatten_closure(&self, idx: usize, out: &mut std::collections::BTreeSet<usize>) {
        if !out.insert(idx) {
            return;
        }
        for f in self.types[idx].all_fields() {
            if f.flatten {
                if let Some(i) = flatten_target(&f.ty) {
                    self.flatten_closure(i, out);
                }
            }
        }
        // the content of a newtype variant of an internally tagged enum is merged into the
        // object as well
        if let Body::Enum(vs) = &self.types[idx].body {
            if self.types[idx].attrs.repr() == Repr::Internal {
                for v in vs {
                    if let VBody::Newtype(f) = &v.body {
                        if let Some(i) = flatten_target(&f.ty) {
                            self.flatten_closure(i, out);
                        }
                    }
                }
            }
        }
    }

    /// the variant names that become *keys* of the parent object when `idx` is flattened:
    /// variants of the externally tagged enums in its flatten closure (variant names are only
    /// unique per enum; two flattened enums with a `Pair` variant write the key `Pair` twice)
    fn variant_keys(&self, idx: usize) -> std::collections::BTreeSet<String> {
        let mut closure = std::collections::BTreeSet::new();
        self.flatten_closure(idx, &mut closure);
        let mut out = std::collections::BTreeSet::new();
        for i in closure {
            let td = &self.types[i];
            if let Body::Enum(vs) = &td.body {
                if td.attrs.repr() == Repr::External {
                    for v in vs {
                        out.insert(Names::key(&v.ident));
                        if let Some(r) = &v.rename {
                            out.insert(Names::key(r));
                        }
                    }
                }
            }
            // tag and content keys: two flattened enums with one tag name write the key twice
            for k in [&td.attrs.tag, &td.attrs.content].into_iter().flatten() {
                out.insert(Names::key(k));
            }
        }
        out
    }

    fn gen_field(&mut self, t: &mut Tape, params: &[Param], named: bool, local: &mut Names, allow_flatten: bool) -> Field {
        let ident = if named {
            let unusual = self.p.unusual_idents;
            let mut name = self.names.fresh(t, &[CONVENTIONAL_FIELDS, UNUSUAL_FIELDS], &[100 - unusual, unusual], "fld");
            // (never the name of a variant: `a` next to a flattened `enum E { a(..) }` is a duplicate key)
            while self.variant_keys_seen.contains(&Names::key(&name)) {
                name = self.names.fresh(t, &[CONVENTIONAL_FIELDS, UNUSUAL_FIELDS], &[100 - unusual, unusual], "fld");
            }
            local.claim(&name);
            self.field_keys_seen.insert(Names::key(&name));
            Some(name)
        } else {
            None
        };
        let mut f = Field { ident, ty: self.gen_ty(t, params), ..Field::default() };
        f.docs = self.gen_doc_at(t, true);
        // flatten
        if named && allow_flatten && (self.force_flatten || t.pct(self.p.flatten)) {
            // the same definition must not be flattened twice into one object (duplicate keys
            // in serde's output are a user error, not a binding defect)
            let cands: Vec<usize> = (0..self.types.len())
                .filter(|i| self.flattenable_generic(*i))
                // known finding (C03 import-unused-default-of-inlined-generic) - flattening goes
                // the same way as inlining: a user type as parameter default stays a dependency
                .filter(|i| self.p.known_inline_default || !self.types[*i].params.iter().any(|p| matches!(p.default, Some(TyExpr::User(..)))))
                .filter(|i| {
                    let mut c = std::collections::BTreeSet::new();
                    self.flatten_closure(*i, &mut c);
                    let keys_here: std::collections::BTreeSet<String> = self.flattened_here.iter().flat_map(|j| self.variant_keys(*j)).collect();
                    c.is_disjoint(&self.flattened_here) && self.variant_keys(*i).is_disjoint(&keys_here)
                })
                .collect();
            if !cands.is_empty() {
                let target = *t.pick(&cands);
                let mut c = std::collections::BTreeSet::new();
                self.flatten_closure(target, &mut c);
                self.flattened_here.extend(c);
                f.ty = self.gen_user_at(t, params, 1, target);
                // flatten through a transparent wrapper (`Box<Enum>`, `Arc<Struct>`)
                if t.pct(25) {
                    f.ty = TyExpr::Wrap(*t.pick(&["Box", "Rc", "Arc"]), Box::new(f.ty));
                }
                f.flatten = true;
                return f;
            }
        }
        if t.pct(self.p.skip) && has_default(&f.ty) {
            f.skip = true;
            return f;
        }
        if let TyExpr::Option(_) = f.ty {
            if named && t.pct(self.p.optional) {
                let nullable = t.pct(40);
                f.optional = Some(nullable);
                f.skip_if_none = !nullable || t.pct(50);
            }
        }
        // tuples cannot be inlined (ts-rs panics with "tuple cannot be inlined!": documented non-support)
        if mentions_user(&f.ty) && !contains_tuple(&f.ty) && t.pct(self.p.inline) {
            // known finding (C03 import-unused-default-of-inlined-generic): inlining a generic type
            // whose parameter default is a user type leaves an unused import behind
            if self.p.known_inline_default || !self.mentions_generic_with_user_default(&f.ty) {
                f.inline = true;
            }
        }
        if named && t.pct(self.p.rename) {
            f.rename = Some(self.rename_string(t, local));
        }
        if let TyExpr::Prim(p) = f.ty {
            if t.pct(self.p.type_override) {
                f.type_override = Some(prim_ts(p).to_string());
            }
        }
        if f.type_override.is_none() && !f.inline && f.optional.is_none() && t.pct(self.p.as_attr) {
            f.as_same = true;
        }
        // `#[ts(as = "Other")]` (+ `inline`): the binding - and the dependencies - are those of the
        // other type, the field's own type does not show
        // (more often on unnamed fields: a newtype has a code path of its own)
        // (not on a field that mentions a type parameter: `as` hides the parameter from the derive,
        // and a parameter no binding uses needs `#[ts(bound)]` - outside the generated fragment)
        let uses_param = params.iter().any(|p| mentions_param(&f.ty, &p.name));
        if self.p.field_as > 0 && !uses_param && f.type_override.is_none() && !f.as_same && f.optional.is_none() && !f.flatten && t.pct(self.p.field_as * if named { 1 } else { 4 }) {
            let cands: Vec<usize> = (0..self.types.len()).filter(|i| self.types[*i].params.is_empty() && self.types[*i].lifetimes.is_empty() && self.types[*i].consts.is_empty()).collect();
            if !cands.is_empty() {
                let u = TyExpr::User(*t.pick(&cands), vec![]);
                f.as_type = Some(match t.choose(4) {
                    0 => TyExpr::Vec(Box::new(u)),
                    1 => TyExpr::Option(Box::new(u)),
                    _ => u,
                });
                f.inline = t.pct(50);
            }
        }
        f
    }

    fn gen_container_common(&mut self, t: &mut Tape, attrs: &mut ContainerAttrs, ident: &str) {
        if t.pct(self.p.rename / 2 + 3) {
            let base = ident.trim_start_matches("r#").trim_end_matches('_');
            let cand = format!("{}Ts", base);
            if self.names.claim(&cand) {
                attrs.rename = Some(cand);
            }
        }
        if t.pct(self.p.export_to) {
            let dirs = ["", "models/", "models/sub/", "a.b/", "../up/", "deep/er/est/", "models_v2/", "models_v2/sub/", "mod/", "../../up2/"];
            let mut d = *t.pick(&dirs);
            if self.p.no_parent_escape && d.starts_with("..") {
                d = "up/";
            }
            attrs.export_to = Some(if t.pct(self.p.shared_files) {
                // few distinct targets, so that several types of a module really meet in one file
                t.pick(&["shared.ts", "models/common.ts", "models/common.ts", "a.b/types.ts"]).to_string()
            } else if t.pct(35) {
                // the same file *name* in different directories (`models/index.ts`, `mod/index.ts`)
                let common = format!("{d}{}", t.pick(&["index.ts", "index.ts", "types.d.ts", "mod.ts"]));
                if t.pct(50) && self.used_files.insert(common.clone()) {
                    common
                } else {
                    format!("{d}{}_file.ts", ident.trim_start_matches("r#").to_lowercase())
                }
            } else if d.is_empty() {
                "./".to_string()
            } else {
                d.to_string()
            });
        }
    }

    fn gen_type(&mut self, t: &mut Tape) -> TypeDef {
        let unusual = self.p.unusual_idents / 2;
        let long = self.p.long_names.min(100 - unusual);
        let ident = self.names.fresh(t, &[TYPE_NAMES, UNUSUAL_TYPE_NAMES, LONG_TYPE_NAMES], &[100 - unusual - long, unusual, long], "Ty");
        let mut params = vec![];
        let mut lifetimes = vec![];
        let mut consts = vec![];
        let mut const_first = false;
        let mut const_default = false;
        if self.p.rich_generics && t.pct(self.p.generics) {
            // (no type parameter at all now and then: only a lifetime and / or a const parameter)
            let n = t.weighted(&[12, 36, 34, 18]);
            for i in 0..n {
                params.push(Param { name: ["T", "U", "V"][i].to_string(), default: None, concrete: None, ts_bound: false });
            }
            if t.pct(30) {
                lifetimes.push("'a".to_string());
            }
            if t.pct(35) || (n == 0 && lifetimes.is_empty()) {
                consts.push("N".to_string());
                const_first = t.pct(50);
                const_default = t.pct(40);
            }
            // a default on the last parameter, possibly mentioning an earlier one
            if n > 0 && t.pct(40) {
                let d = if n >= 2 && t.pct(50) {
                    let earlier = TyExpr::Param(params[t.choose(n - 1)].name.clone());
                    match t.choose(3) {
                        0 => TyExpr::Vec(Box::new(earlier)),
                        1 => TyExpr::Option(Box::new(earlier)),
                        _ => earlier,
                    }
                } else {
                    let cands: Vec<usize> = (0..self.types.len()).filter(|i| self.types[*i].params.is_empty() && self.types[*i].lifetimes.is_empty() && self.types[*i].consts.is_empty()).collect();
                    if !cands.is_empty() && t.pct(50) { TyExpr::User(*t.pick(&cands), vec![]) } else { TyExpr::Prim(*t.pick(&["i32", "String", "bool"])) }
                };
                params.last_mut().unwrap().default = Some(d);
                // a const parameter without default cannot follow a defaulted type parameter
                if !consts.is_empty() && !const_default {
                    const_first = true;
                }
            }
            // concretise one or two parameters (with or without a default of their own) that no
            // default mentions
            if n > 0 && t.pct(35) {
                for _ in 0..1 + t.choose(2) {
                    let k = t.choose(n);
                    if !params.iter().any(|p| matches!(&p.default, Some(d) if mentions_param(d, &params[k].name))) {
                        params[k].concrete = Some(TyExpr::Prim(*t.pick(&["i32", "String", "u64"])));
                    }
                }
            }
        } else if !self.p.rich_generics && t.pct(self.p.generics) {
            let n = 1 + t.weighted(&[70, 30]);
            for i in 0..n {
                params.push(Param { name: ["T", "U"][i].to_string(), default: None, concrete: None, ts_bound: false });
            }
            if t.pct(25) {
                let d = if !self.types.is_empty() && t.pct(40) {
                    let cands: Vec<usize> = (0..self.types.len()).filter(|i| self.types[*i].params.is_empty()).collect();
                    if cands.is_empty() { TyExpr::Prim("i32") } else { TyExpr::User(*t.pick(&cands), vec![]) }
                } else {
                    TyExpr::Prim(*t.pick(&["i32", "String", "bool"]))
                };
                params.last_mut().unwrap().default = Some(d);
            }
        }
        let mut attrs = ContainerAttrs::default();
        let docs = self.gen_doc(t);
        self.gen_container_common(t, &mut attrs, &ident);
        let mut local = Names::new();
        let is_enum = t.pct(self.p.enums);
        let body = if is_enum {
            let repr = match t.weighted(&if self.p.external_only { [100, 0, 0, 0] } else { [35, 25, 20, 20] }) {
                0 => Repr::External,
                1 => Repr::Internal,
                2 => Repr::Adjacent,
                _ => Repr::Untagged,
            };
            match repr {
                Repr::External => (),
                Repr::Internal => attrs.tag = Some(self.names.fresh(t, &[TAGS], &[100], "tg")),
                Repr::Adjacent => {
                    attrs.tag = Some(self.names.fresh(t, &[TAGS], &[100], "tg"));
                    attrs.content = Some(self.names.fresh(t, &[CONTENTS], &[100], "ct"));
                }
                Repr::Untagged => attrs.untagged = true,
            }
            if self.p.escape_strings && t.pct(15) {
                if attrs.tag.is_some() {
                    attrs.tag = Some(t.pick(&["t\"g", "t\\g"]).to_string());
                }
            }
            if t.pct(self.p.rename_all) {
                attrs.rename_all = Some(*t.pick(&RULES));
            }
            if t.pct(self.p.rename_all / 2) {
                attrs.rename_all_fields = Some(*t.pick(&RULES));
            }
            let nv = 1 + t.weighted(&[15, 30, 30, 15, 10]);
            let force_unit = repr == Repr::External && params.is_empty() && t.pct(self.p.unit_enum_bias);
            let mut variants = vec![];
            let mut vnames = Names::new();
            for vi in 0..nv {
                let unusual = self.p.unusual_idents;
                let mut vident = vnames.fresh(t, &[CONVENTIONAL_VARIANTS, UNUSUAL_VARIANTS], &[100 - unusual, unusual], "Var");
                // (never the name of a field generated earlier, see `variant_keys_seen`)
                while self.field_keys_seen.contains(&Names::key(&vident)) {
                    vident = vnames.fresh(t, &[CONVENTIONAL_VARIANTS, UNUSUAL_VARIANTS], &[100 - unusual, unusual], "Var");
                }
                self.variant_keys_seen.insert(Names::key(&vident));
                let shape = if force_unit { t.word(); 0 } else { t.weighted(&[30, 25, 30, if repr == Repr::Internal { 0 } else { 15 }]) };
                let mut flocal = Names::new();
                let mut body = match shape {
                    0 => VBody::Unit,
                    1 => VBody::Newtype(self.gen_field(t, &params, false, &mut flocal, false)),
                    2 => {
                        let n = t.weighted(&[5, 40, 35, 20]);
                        self.flattened_here.clear();
                        VBody::Named((0..n).map(|_| self.gen_field(t, &params, true, &mut flocal, true)).collect())
                    }
                    _ => {
                        let n = 2 + t.choose(2);
                        let mut fs: Vec<Field> = (0..n).map(|_| self.gen_field(t, &params, false, &mut flocal, false)).collect();
                        // now and then every field of the tuple variant is skipped
                        if t.pct(self.p.skip) && fs.iter().all(|f| has_default(&f.ty)) {
                            fs.iter_mut().for_each(|f| {
                                f.skip = true;
                                f.inline = false;
                                f.as_same = false;
                                f.type_override = None;
                            });
                        }
                        VBody::Tuple(fs)
                    }
                };
                // internally tagged newtype variants must hold something that serialises as a map
                if repr == Repr::Internal {
                    if let VBody::Newtype(f) = &mut body {
                        // (a struct, or - where nothing is deserialised through serde's buffer - an
                        // enum every value of which is written as a map)
                        let cands: Vec<usize> = (0..self.types.len())
                            .filter(|i| self.struct_like(*i) || (!self.p.serde_buffer_safe && matches!(self.types[*i].body, Body::Enum(_)) && self.flattenable(*i)))
                            .collect();
                        // .. or as nothing at all: `()` and unit structs are written as the tag alone
                        let units: Vec<usize> = (0..self.types.len())
                            .filter(|i| matches!(self.types[*i].body, Body::Unit) && self.types[*i].params.is_empty() && self.types[*i].lifetimes.is_empty() && self.types[*i].consts.is_empty() && self.types[*i].attrs.type_override.is_none() && self.types[*i].attrs.as_type.is_none())
                            .collect();
                        if !f.skip && t.pct(15) {
                            if !units.is_empty() && t.pct(50) {
                                f.ty = TyExpr::User(*t.pick(&units), vec![]);
                                // known finding (C01 internally-tagged-variant-holding-unit-struct-by-name):
                                // `{ "t": "V" } & Unit` with `type Unit = null` is `never`
                                f.inline = !self.p.known_internal_unit_by_name || t.pct(50);
                            } else {
                                f.ty = TyExpr::Prim("()");
                                f.inline = false;
                            }
                            f.as_same = false;
                            f.type_override = None;
                            f.optional = None;
                        } else if !f.skip && t.pct(8) {
                            // .. or as an externally tagged enum of the standard library: the name of
                            // `Result<A, B>` is a union, `{ "t": "V" } & ({ Ok : A } | { Err : B })`
                            let a = self.gen_ty_inner(t, &params, 1, true);
                            let b = self.gen_ty_inner(t, &params, 1, true);
                            f.ty = TyExpr::Lib("Result", vec![a, b]);
                            f.inline = false;
                            f.as_same = false;
                            f.type_override = None;
                            f.optional = None;
                        } else if cands.is_empty() || f.skip {
                            body = VBody::Unit;
                        } else {
                            f.ty = TyExpr::User(*t.pick(&cands), vec![]);
                            // the payload by name, or inlined into the variant
                            f.inline = t.pct(self.p.inline) && (self.p.known_inline_default || !self.mentions_generic_with_user_default(&f.ty));
                            f.as_same = false;
                            f.type_override = None;
                        }
                    }
                }
                let mut v = Variant { ident: vident, body, ..Variant::default() };
                v.docs = self.gen_doc_at(t, true);
                if t.pct(self.p.rename) {
                    v.rename = Some(self.rename_string(t, &mut vnames));
                }
                if matches!(v.body, VBody::Named(_)) && t.pct(self.p.rename_all / 2) {
                    v.rename_all = Some(*t.pick(&RULES));
                }
                if vi > 0 && !force_unit && t.pct(self.p.skip) {
                    v.skip = true;
                }
                variants.push(v);
            }
            // per-variant untagged: a suffix of the variant list
            // (more often when the enum renames the fields of its variants: the rule applies to
            // untagged variants as well)
            let untagged_pct = if attrs.rename_all_fields.is_some() { 40 } else { 12 };
            if repr != Repr::Untagged && nv >= 2 && !self.p.external_only && !force_unit && t.pct(untagged_pct) {
                let k = 1 + t.choose(nv - 1);
                for v in variants.iter_mut().skip(nv - k) {
                    v.untagged = true;
                }
            }
            // `#[ts(as = "..")]` on a variant with a payload: the binding of the variant is that type
            if self.p.variant_as > 0 {
                let cands: Vec<usize> = (0..self.types.len()).filter(|i| self.types[*i].params.is_empty() && self.types[*i].lifetimes.is_empty() && self.types[*i].consts.is_empty()).collect();
                for v in variants.iter_mut() {
                    let plain_payload = match &v.body {
                        VBody::Unit => false,
                        VBody::Newtype(f) => !f.skip,
                        VBody::Tuple(fs) | VBody::Named(fs) => !fs.is_empty(),
                    };
                    // (`as` hides the payload from the derive: a type parameter only the payload uses
                    // would be left without a bound)
                    let hides_param = match &v.body {
                        VBody::Unit => false,
                        VBody::Newtype(f) => params.iter().any(|p| mentions_param(&f.ty, &p.name)),
                        VBody::Tuple(fs) | VBody::Named(fs) => fs.iter().any(|f| params.iter().any(|p| mentions_param(&f.ty, &p.name))),
                    };
                    if plain_payload && !hides_param && v.rename_all.is_none() && !cands.is_empty() && t.pct(self.p.variant_as) {
                        let u = TyExpr::User(*t.pick(&cands), vec![]);
                        v.as_type = Some(match t.choose(3) {
                            0 => TyExpr::Vec(Box::new(u)),
                            1 => TyExpr::Option(Box::new(u)),
                            _ => u,
                        });
                    }
                }
            }
            // `#[ts(as = "..")]` on a unit variant of a tagged enum: legal, and without effect on the
            // binding (the variant has no payload the type could stand for)
            if repr != Repr::Untagged {
                let cands: Vec<usize> = (0..self.types.len()).filter(|i| self.types[*i].params.is_empty() && self.types[*i].lifetimes.is_empty() && self.types[*i].consts.is_empty()).collect();
                for v in variants.iter_mut() {
                    if matches!(v.body, VBody::Unit) && !v.untagged && !cands.is_empty() && t.pct(self.p.as_attr * 2) {
                        v.as_type = Some(TyExpr::User(*t.pick(&cands), vec![]));
                    }
                }
            }
            // .. and on a unit variant that is written without tag (`untagged` on the variant or on
            // the enum): there the binding of the variant *is* the `as` type
            if self.p.variant_as > 0 {
                let cands: Vec<usize> = (0..self.types.len()).filter(|i| self.types[*i].params.is_empty() && self.types[*i].lifetimes.is_empty() && self.types[*i].consts.is_empty()).collect();
                for v in variants.iter_mut() {
                    if matches!(v.body, VBody::Unit) && (v.untagged || repr == Repr::Untagged) && !cands.is_empty() && t.pct(self.p.variant_as * 4) {
                        v.as_type = Some(TyExpr::User(*t.pick(&cands), vec![]));
                    }
                }
            }
            // self reference in a non-first variant (not in untagged enums: serde's own untagged
            // deserialiser recurses without bound on `More(Box<Self>)`)
            if t.pct(self.p.recursion) && params.is_empty() && !force_unit && repr != Repr::Untagged && !variants.iter().any(|v| v.untagged) {
                let vident = vnames.fresh(t, &[&["Rec", "Nested", "More"]], &[100], "RecVar");
                let body = if repr == Repr::Internal {
                    VBody::Named(vec![Field { ident: Some(self.names.fresh(t, &[&["next", "child", "rest"]], &[100], "nxt")), ty: TyExpr::SelfRef("Option<Box<Self>>"), ..Field::default() }])
                } else {
                    VBody::Newtype(Field { ident: None, ty: TyExpr::SelfRef("Box<Self>"), ..Field::default() })
                };
                let pos = variants.iter().position(|v| v.untagged).unwrap_or(variants.len());
                variants.insert(pos.max(1), Variant { ident: vident, body, ..Variant::default() });
            }
            Body::Enum(variants)
        } else {
            let kind = t.weighted(&[62, 12, 12, 5, 5, 4]);
            match kind {
                0 => {
                    let n = 1 + t.weighted(&[20, 35, 30, 15]);
                    self.flattened_here.clear();
                    // now and then a struct made of flattened fields only (one or two)
                    let flatten_only = params.is_empty() && self.p.flatten > 0 && t.pct(self.p.flatten / 2 + 2);
                    let mut fields: Vec<Field> = if flatten_only {
                        self.force_flatten = true;
                        let k = 1 + t.choose(2);
                        let mut fs: Vec<Field> = (0..k).map(|_| self.gen_field(t, &params, true, &mut local, true)).collect();
                        self.force_flatten = false;
                        fs.retain(|f| f.flatten);
                        fs
                    } else {
                        vec![]
                    };
                    if fields.is_empty() {
                        fields = (0..n).map(|_| self.gen_field(t, &params, true, &mut local, true)).collect();
                    }
                    if t.pct(self.p.recursion) && params.is_empty() {
                        let (name, ty) = *t.pick(&[("next", "Option<Box<Self>>"), ("children", "Vec<Self>"), ("parent", "Option<Box<Self>>")]);
                        fields.push(Field { ident: Some(self.names.fresh(t, &[&[name]], &[100], "rec")), ty: TyExpr::SelfRef(ty), ..Field::default() });
                    }
                    if t.pct(self.p.rename_all) {
                        attrs.rename_all = Some(*t.pick(&RULES));
                    }
                    if t.pct(10) {
                        // unique in the module: a struct tag and the tag of a flattened enum must differ
                        attrs.tag = Some(self.names.fresh(t, &[TAGS], &[100], "tg"));
                    }
                    // the same user type twice in one struct: by name first, inlined later
                    if fields.len() >= 2 && self.p.inline > 0 && t.pct(self.p.inline) {
                        let plain = |f: &Field| !f.flatten && !f.skip && f.optional.is_none() && !f.skip_if_none && f.type_override.is_none() && !f.as_same && f.as_type.is_none();
                        let from = fields.iter().position(|f| plain(f) && !f.inline && matches!(&f.ty, TyExpr::User(i, a) if a.is_empty() && self.types[*i].params.is_empty()));
                        if let Some(a) = from {
                            if let Some(b) = (a + 1..fields.len()).find(|b| plain(&fields[*b]) && !matches!(fields[*b].ty, TyExpr::SelfRef(_))) {
                                // (now and then both as arrays of the type: `[P; 2]` by name and inlined)
                                if t.pct(35) {
                                    fields[a].ty = TyExpr::Array(Box::new(fields[a].ty.clone()), 1 + t.choose(3));
                                }
                                fields[b].ty = fields[a].ty.clone();
                                // (.. in either order)
                                let which = if t.pct(50) { a } else { b };
                                fields[which].inline = self.p.known_inline_default || !self.mentions_generic_with_user_default(&fields[which].ty);
                            }
                        }
                    }
                    if t.pct(self.p.optional / 3) {
                        let nullable = t.pct(40);
                        attrs.optional_fields = Some(nullable);
                        for f in fields.iter_mut() {
                            let is_option = matches!(f.ty, TyExpr::Option(_)) || matches!(f.ty, TyExpr::SelfRef(s) if s.starts_with("Option<"));
                            if is_option && !f.skip && !f.flatten && f.type_override.is_none() {
                                f.skip_if_none = !nullable || f.skip_if_none;
                                f.as_same = false;
                            }
                        }
                    }
                    Body::Named(fields)
                }
                1 => {
                    let mut f = self.gen_field(t, &params, false, &mut local, false);
                    // known finding (C01 newtype-struct-with-skipped-field): serde writes `[]`, ts-rs declares `null`
                    if f.skip && !self.p.known_newtype_skip {
                        f.skip = false;
                    }
                    Body::Newtype(f)
                }
                2 => {
                    let n = 2 + t.choose(3);
                    Body::Tuple((0..n).map(|_| self.gen_field(t, &params, false, &mut local, false)).collect())
                }
                3 => Body::Unit,
                4 => Body::Named(vec![]),
                _ => Body::Tuple(vec![]),
            }
        };
        let mut td = TypeDef { ident, lifetimes, consts, const_first, const_default, params, body, attrs, docs };
        let ts_only = !self.p.serde;
        fix_unused_params(&mut td, ts_only && self.p.rich_generics, t.word());
        use_lifetimes_and_consts(&mut td);
        sanitize_for_serde_camel(&mut td);
        td
    }
}

fn mentions_param(ty: &TyExpr, p: &str) -> bool {
    match ty {
        TyExpr::Param(n) => n == p,
        TyExpr::Prim(_) | TyExpr::SelfRef(_) => false,
        TyExpr::Option(t) | TyExpr::Vec(t) | TyExpr::Array(t, _) | TyExpr::Wrap(_, t) => mentions_param(t, p),
        TyExpr::Tuple(ts) => ts.iter().any(|t| mentions_param(t, p)),
        TyExpr::Map(k, v, _) => mentions_param(k, p) || mentions_param(v, p),
        TyExpr::User(_, args) | TyExpr::Lib(_, args) => args.iter().any(|t| mentions_param(t, p)),
    }
}

/// lifetime and const parameters must be used: give them a field each
fn use_lifetimes_and_consts(td: &mut TypeDef) {
    let mut extra = vec![];
    for l in &td.lifetimes {
        extra.push(Field { ident: Some(format!("borrowed_{}", l.trim_start_matches('\''))), ty: TyExpr::Lib("&", vec![TyExpr::Prim(if l == "'a" { "'a str" } else { "'static str" })]), ..Field::default() });
    }
    for c in &td.consts {
        let elem = td.params.first().map(|p| TyExpr::Param(p.name.clone())).unwrap_or(TyExpr::Prim("u8"));
        extra.push(Field { ident: Some(format!("array_{}", c.to_lowercase())), ty: TyExpr::Lib("[_; N]", vec![elem]), ..Field::default() });
    }
    if extra.is_empty() {
        return;
    }
    match &mut td.body {
        Body::Named(fs) => fs.extend(extra),
        Body::Tuple(fs) => fs.extend(extra.into_iter().map(|f| Field { ident: None, ..f })),
        Body::Newtype(f) => {
            let first = std::mem::take(f);
            let mut v = vec![first];
            v.extend(extra.into_iter().map(|f| Field { ident: None, ..f }));
            td.body = Body::Tuple(v);
        }
        Body::Unit => td.body = Body::Named(extra),
        Body::Enum(vs) => {
            let untagged_pos = vs.iter().position(|v| v.untagged).unwrap_or(vs.len());
            vs.insert(untagged_pos, Variant { ident: "UsesGenerics".into(), body: VBody::Named(extra), ..Variant::default() });
        }
    }
}

/// every declared parameter must be used by a non-skipped field (rustc E0392 / ts-rs bound
/// generation); unused ones get a trailing field
/// `ts_only_variations`: in TS-only modules a parameter nothing mentions may also stay unused -
/// only named by a skipped `PhantomData<T>` marker, with an explicit `T: TS` bound -, and in an
/// internally tagged enum it may become the bare payload of a newtype variant (`V(T)`).
fn fix_unused_params(td: &mut TypeDef, ts_only_variations: bool, choice: u32) {
    fn uses(ty: &TyExpr, p: &str) -> bool {
        match ty {
            TyExpr::Param(n) => n == p,
            TyExpr::Prim(_) | TyExpr::SelfRef(_) => false,
            TyExpr::Option(t) | TyExpr::Vec(t) | TyExpr::Array(t, _) | TyExpr::Wrap(_, t) => uses(t, p),
            TyExpr::Tuple(ts) => ts.iter().any(|t| uses(t, p)),
            TyExpr::Map(k, v, _) => uses(k, p) || uses(v, p),
            TyExpr::User(_, args) | TyExpr::Lib(_, args) => args.iter().any(|t| uses(t, p)),
        }
    }
    let names: Vec<String> = td.params.iter().map(|p| p.name.clone()).collect();
    for p in names {
        let used = td.all_fields().iter().any(|f| !f.skip && uses(&f.ty, &p));
        if used {
            continue;
        }
        // (the name carries the type's name: a generic type flattened into another generic type
        // must not bring a second `extra_t` key)
        let slug: String = td.ident.chars().filter(|c| c.is_ascii_alphanumeric()).map(|c| c.to_ascii_lowercase()).collect();
        let extra = Field { ident: Some(format!("extra_{}_{}{}", p.to_lowercase(), slug, td.ident.chars().count())), ty: TyExpr::Param(p.clone()), ..Field::default() };
        let concretised = td.params.iter().any(|q| q.name == p && q.concrete.is_some());
        let any_concretised = td.params.iter().any(|q| q.concrete.is_some());
        if ts_only_variations && !concretised && !any_concretised && choice % 3 == 0 {
            if let Body::Named(fs) = &mut td.body {
                fs.push(Field { ident: Some(format!("_marker_{}", p.to_lowercase())), ty: TyExpr::Lib("std::marker::PhantomData", vec![TyExpr::Param(p.clone())]), skip: true, ..Field::default() });
                td.params.iter_mut().filter(|q| q.name == p).for_each(|q| q.ts_bound = true);
                continue;
            }
        }
        match &mut td.body {
            Body::Named(fs) => fs.push(extra),
            Body::Tuple(fs) => fs.push(Field { ident: None, ..extra }),
            Body::Newtype(f) => {
                let first = std::mem::take(f);
                td.body = Body::Tuple(vec![first, Field { ident: None, ..extra }]);
            }
            Body::Unit => td.body = Body::Named(vec![extra]),
            Body::Enum(vs) => {
                let vident = format!("Uses{p}");
                let untagged_pos = vs.iter().position(|v| v.untagged).unwrap_or(vs.len());
                let body = if td.attrs.repr() == Repr::Internal && !(ts_only_variations && choice % 2 == 1) {
                    VBody::Named(vec![extra])
                } else {
                    VBody::Newtype(Field { ident: None, ..extra })
                };
                vs.insert(untagged_pos, Variant { ident: vident, body, ..Variant::default() });
            }
        }
    }
}

pub fn prim_ts(p: &str) -> &'static str {
    match p {
        "i32" | "u8" | "u16" | "i8" | "i16" | "u32" | "usize" | "isize" | "f32" | "f64" => "number",
        "u64" | "i64" | "u128" | "i128" => "bigint",
        "bool" => "boolean",
        "String" | "char" => "string",
        "()" => "null",
        _ => "unknown",
    }
}

/// Generate one module from a tape.
/// `struct Outer { #[flatten] m: Mid }` over `struct Mid { #[flatten] a: E1, #[flatten] b: E2 }`:
/// the shapes in which the derive composes parenthesised unions with `&`.
fn flatten_tower(cx: &mut Cx, t: &mut Tape) {
    let disjoint = |cx: &Cx, chosen: &[usize], i: usize| {
        let mut all = std::collections::BTreeSet::new();
        for c in chosen {
            cx.flatten_closure(*c, &mut all);
        }
        let mut mine = std::collections::BTreeSet::new();
        cx.flatten_closure(i, &mut mine);
        let keys: std::collections::BTreeSet<String> = chosen.iter().flat_map(|c| cx.variant_keys(*c)).collect();
        mine.is_disjoint(&all) && cx.variant_keys(i).is_disjoint(&keys)
    };
    let want = 2 + t.choose(2);
    let mut chosen: Vec<usize> = vec![];
    // enums first, then anything flattenable
    for pass in 0..2 {
        for i in (0..cx.types.len()).rev() {
            let is_enum = matches!(cx.types[i].body, Body::Enum(_));
            if chosen.len() < want && !chosen.contains(&i) && cx.flattenable(i) && (is_enum || pass == 1) && disjoint(cx, &chosen, i) {
                chosen.push(i);
            }
        }
        if pass == 0 {
            // a few more tries to get flattenable enums
            for _ in 0..6 {
                if chosen.len() >= 2 {
                    break;
                }
                let td = cx.gen_type(t);
                cx.types.push(td);
                let i = cx.types.len() - 1;
                if matches!(cx.types[i].body, Body::Enum(_)) && cx.flattenable(i) && disjoint(cx, &chosen, i) {
                    chosen.push(i);
                } else {
                    cx.types.pop();
                }
            }
        }
    }
    if chosen.len() < 2 {
        return;
    }
    let plain = |cx: &mut Cx, t: &mut Tape, base: &str, fields: Vec<Field>| TypeDef {
        ident: cx.names.fresh(t, &[&[base]], &[100], base),
        lifetimes: vec![],
        consts: vec![],
        const_first: false,
        const_default: false,
        params: vec![],
        body: Body::Named(fields),
        attrs: ContainerAttrs::default(),
        docs: None,
    };
    // now and then a member all of whose fields are skipped: it is written as nothing, and its
    // binding must not take anything away from the others
    if t.pct(30) {
        let hidden = |ty: &'static str, cx: &mut Cx, t: &mut Tape| Field { ident: Some(cx.names.fresh(t, &[CONVENTIONAL_FIELDS], &[100], "hid")), ty: TyExpr::Prim(ty), skip: true, ..Field::default() };
        let fs = vec![hidden("i32", cx, t), hidden("String", cx, t)];
        let td = plain(cx, t, "Hidden", fs);
        cx.types.push(td);
        chosen.push(cx.types.len() - 1);
    }
    // field docs with an odd number of `"` in the struct variants of the flattened enums (the
    // derive decides about the parentheses of these unions by scanning their text)
    if cx.p.docs > 0 {
        for c in chosen.clone() {
            if let Body::Enum(vs) = &mut cx.types[c].body {
                for v in vs.iter_mut() {
                    if let VBody::Named(fs) = &mut v.body {
                        if let Some(f) = fs.iter_mut().find(|f| !f.skip && !f.flatten) {
                            if t.pct(35) {
                                cx.doc_counter += 1;
                                f.docs = Some(Doc { lines: vec![format!(" [doc#{}] a 3.5\" disk", cx.doc_counter)], style: DocStyle::Line });
                            }
                        }
                    }
                }
            }
        }
    }
    let mut fields = vec![];
    for c in &chosen {
        let mut ty = TyExpr::User(*c, vec![]);
        if t.pct(20) {
            ty = TyExpr::Wrap("Box", Box::new(ty));
        }
        fields.push(Field { ident: Some(cx.names.fresh(t, &[CONVENTIONAL_FIELDS], &[100], "fl")), ty, flatten: true, ..Field::default() });
    }
    let mid = plain(cx, t, "Mid", fields);
    cx.types.push(mid);
    let mid_idx = cx.types.len() - 1;
    let mut outer_fields = vec![Field { ident: Some(cx.names.fresh(t, &[CONVENTIONAL_FIELDS], &[100], "fl")), ty: TyExpr::User(mid_idx, vec![]), flatten: true, ..Field::default() }];
    if t.pct(30) {
        outer_fields.insert(0, Field { ident: Some(cx.names.fresh(t, &[CONVENTIONAL_FIELDS], &[100], "fl")), ty: TyExpr::Prim("i32"), ..Field::default() });
    }
    let outer = plain(cx, t, "Tower", outer_fields);
    cx.types.push(outer);
}

/// A cycle through two or more definitions: a named struct A gets a field `Option<Box<B>>` /
/// `Vec<B>` of a later definition B that (transitively, by name or not) refers to A. The new edge
/// is by name, so no chain of `inline`/`flatten` can go round in circles.
fn add_cycle(cx: &mut Cx, t: &mut Tape) {
    let n = cx.types.len();
    let plain = |td: &TypeDef| td.params.is_empty() && td.lifetimes.is_empty() && td.consts.is_empty() && td.attrs.type_override.is_none() && td.attrs.as_type.is_none();
    let mut pairs = vec![];
    for a in 0..n {
        if !plain(&cx.types[a]) || !matches!(&cx.types[a].body, Body::Named(fs) if !fs.is_empty()) {
            continue;
        }
        for b in a + 1..n {
            if !plain(&cx.types[b]) {
                continue;
            }
            // does b reach a?
            let mut seen = std::collections::BTreeSet::new();
            let mut todo = vec![b];
            let mut reaches = false;
            while let Some(i) = todo.pop() {
                if !seen.insert(i) {
                    continue;
                }
                let mut direct = std::collections::BTreeSet::new();
                for f in cx.types[i].all_fields() {
                    model::collect_users(&f.ty, &mut direct);
                }
                if direct.contains(&a) {
                    reaches = true;
                    break;
                }
                todo.extend(direct);
            }
            if reaches {
                pairs.push((a, b));
            }
        }
    }
    if pairs.is_empty() {
        return;
    }
    let (a, b) = *t.pick(&pairs);
    let ident = cx.names.fresh(t, &[&["back", "owner", "parent_of", "cycle"]], &[100], "back");
    let inner = TyExpr::User(b, vec![]);
    let ty = if t.pct(60) { TyExpr::Option(Box::new(TyExpr::Wrap("Box", Box::new(inner)))) } else { TyExpr::Vec(Box::new(inner)) };
    // (`optional_fields` declares `back?: B`: serde has to leave a `None` out then)
    let skip_if_none = matches!(ty, TyExpr::Option(_)) && cx.types[a].attrs.optional_fields == Some(false);
    if let Body::Named(fs) = &mut cx.types[a].body {
        fs.push(Field { ident: Some(ident), ty, skip_if_none, ..Field::default() });
    }
}

/// Name collisions a real code base has: a name that extends another name in the same file, and
/// two types with one TypeScript name in different files.
fn name_games(cx: &mut Cx, t: &mut Tape) {
    let n = cx.types.len();
    if n >= 2 && cx.p.shared_files > 0 && t.pct(cx.p.prefix_names) {
        let a = t.choose(n);
        let b = (a + 1 + t.choose(n - 1)) % n;
        if cx.types[b].attrs.rename.is_none() {
            let cand = format!("{}{}", cx.types[a].ts_name(), t.pick(&["List", "2", "_", "s"]));
            if cx.names.claim(&cand) {
                let file = match &cx.types[a].attrs.export_to {
                    Some(f) if !f.ends_with('/') => f.clone(),
                    _ => "models/common.ts".to_string(),
                };
                cx.types[a].attrs.export_to = Some(file.clone());
                cx.types[b].attrs.export_to = Some(file);
                cx.types[b].attrs.rename = Some(cand);
            }
        }
    }
    // a file-form `export_to` that does not end in `.ts` is taken verbatim too (only for a type
    // nothing else refers to: TypeScript could not import from such a file)
    if cx.p.export_to > 0 && t.pct(cx.p.export_to / 3) {
        let referenced: std::collections::BTreeSet<usize> = (0..n).flat_map(|d| model::inline_closure(&cx.types, d)).collect();
        let cands: Vec<usize> = (0..n).filter(|i| !referenced.contains(i)).collect();
        if !cands.is_empty() {
            let i = *t.pick(&cands);
            let dir = *t.pick(&["", "gen/", "models/"]);
            let file = *t.pick(&["schema", "api.v2", "module.d.mts", "bindings.tsx", "noext"]);
            let path = format!("{dir}{file}");
            if !cx.types.iter().any(|o| o.expected_path() == path) {
                cx.types[i].attrs.export_to = Some(path);
            }
        }
    }
    if n >= 3 && t.pct(cx.p.twin_names) {
        // all pairs no *file* sees together (j moves into a file of its own)
        let closures: Vec<std::collections::BTreeSet<usize>> = (0..n)
            .map(|d| {
                let mut c = model::inline_closure(&cx.types, d);
                c.insert(d);
                c
            })
            .collect();
        let mut pairs = vec![];
        for i in 0..n {
            for j in 0..n {
                if i == j || cx.types[j].attrs.rename.is_some() {
                    continue;
                }
                let mut files: std::collections::BTreeMap<String, std::collections::BTreeSet<usize>> = Default::default();
                for k in 0..n {
                    let key = if k == j { "<own file>".to_string() } else { cx.types[k].expected_path() };
                    files.entry(key).or_default().extend(closures[k].iter().copied());
                }
                if !files.values().any(|c| c.contains(&i) && c.contains(&j)) {
                    pairs.push((i, j));
                }
            }
        }
        if !pairs.is_empty() {
            let (i, j) = *t.pick(&pairs);
            let name = cx.types[i].ts_name();
            let taken = cx.types.iter().enumerate().any(|(k, o)| k != i && o.ts_name() == name);
            if !taken {
                cx.types[j].attrs.rename = Some(name);
                cx.types[j].attrs.export_to = Some(t.pick(&["twin/", "twin/sub/", "models/twin/"]).to_string());
            }
        }
    }
}

pub fn gen_module(words: &[u32], profile: &Profile, name: &str) -> Module {
    let mut t = Tape::new(words);
    let mut cx = Cx { p: profile, names: Names::new(), types: vec![], flattened_here: Default::default(), doc_counter: 0, used_files: Default::default(), force_flatten: false, variant_keys_seen: Default::default(), field_keys_seen: Default::default() };
    let n = 1 + t.choose(profile.max_types);
    for _ in 0..n {
        let td = cx.gen_type(&mut t);
        cx.types.push(td);
    }
    if profile.flatten > 0 && t.pct(profile.flatten_tower) {
        flatten_tower(&mut cx, &mut t);
    }
    if t.pct(profile.cycles) {
        add_cycle(&mut cx, &mut t);
    }
    // one `index.ts` (`mod.ts`) per directory, the directories nested in each other
    if t.pct(profile.index_layout) {
        let file = *t.pick(&["index.ts", "index.ts", "mod.ts", "types.d.ts"]);
        let chain = ["", "models/", "models/sub/", "models/sub/deeper/", "models_v2/", "./"];
        for td in cx.types.iter_mut() {
            td.attrs.export_to = Some(format!("{}{file}", t.pick(&chain)));
        }
    }
    name_games(&mut cx, &mut t);
    let mut insts = vec![];
    let simple_args: Vec<TyExpr> = vec![
        TyExpr::Prim("i32"),
        TyExpr::Prim("String"),
        TyExpr::Option(Box::new(TyExpr::Prim("u8"))),
        TyExpr::Vec(Box::new(TyExpr::Prim("bool"))),
        TyExpr::Prim("u64"),
        TyExpr::Tuple(vec![TyExpr::Prim("i32"), TyExpr::Prim("String")]),
    ];
    for (i, td) in cx.types.iter().enumerate() {
        if td.params.is_empty() {
            insts.push(TyExpr::User(i, vec![]));
        } else if td.params.iter().all(|p| p.concrete.is_some()) {
            insts.push(TyExpr::User(i, td.params.iter().map(|p| p.concrete.clone().unwrap()).collect()));
        } else {
            let ninst = 2 + t.choose(2);
            for k in 0..ninst {
                let mut args: Vec<TyExpr> = vec![];
                for p in &td.params {
                    // a concretised parameter is instantiated with its concrete type
                    if let Some(c) = &p.concrete {
                        args.push(c.clone());
                        continue;
                    }
                    // (a type argument whose TypeScript name is also used inside the generic would
                    // put two different `Name`s into one declaration)
                    let names_inside: Vec<String> = (0..cx.types.len())
                        .filter(|k| cx.types[*k].expected_path() == td.expected_path())
                        .flat_map(|k| model::inline_closure(&cx.types, k).into_iter().chain([k]))
                        .map(|j| cx.types[j].ts_name())
                        .collect();
                    let twin_of = |j: usize| cx.types.iter().enumerate().any(|(k, o)| k != j && o.ts_name() == cx.types[j].ts_name());
                    let user_cands: Vec<usize> = (0..i)
                        .filter(|j| cx.types[*j].params.is_empty() && cx.types[*j].lifetimes.is_empty() && cx.types[*j].consts.is_empty())
                        .filter(|j| !(twin_of(*j) && names_inside.contains(&cx.types[*j].ts_name())))
                        .filter(|j| cx.types[*j].expected_path().ends_with(".ts"))
                        .collect();
                    // another instantiated generic as argument (`G<H<i32>>`)
                    let generic_cands: Vec<usize> = (0..i)
                        .filter(|j| !cx.types[*j].params.is_empty() && cx.types[*j].lifetimes.is_empty() && cx.types[*j].consts.is_empty() && cx.types[*j].attrs.optional_fields.is_none())
                        .filter(|j| !names_inside.contains(&cx.types[*j].ts_name()) || !twin_of(*j))
                        .filter(|j| cx.types[*j].expected_path().ends_with(".ts"))
                        .collect();
                    // (two definitions with one TypeScript name must not meet in one instantiation -
                    // neither as plain arguments nor as an instantiated generic next to one)
                    let mut used_before = std::collections::BTreeSet::new();
                    for a in &args {
                        model::collect_users(a, &mut used_before);
                    }
                    let generic_cands: Vec<usize> = generic_cands
                        .into_iter()
                        .filter(|c| !used_before.iter().any(|u| u != c && cx.types[*u].ts_name() == cx.types[*c].ts_name()))
                        .collect();
                    if !generic_cands.is_empty() && t.pct(15) {
                        let j = *t.pick(&generic_cands);
                        let inner: Vec<TyExpr> = cx.types[j]
                            .params
                            .iter()
                            .enumerate()
                            .map(|(n, p)| p.concrete.clone().unwrap_or_else(|| [TyExpr::Prim("i32"), TyExpr::Prim("String"), TyExpr::Prim("u64")][(n + k) % 3].clone()))
                            .collect();
                        args.push(TyExpr::User(j, inner));
                    } else if !user_cands.is_empty() && t.pct(35) {
                        // (two definitions with one TypeScript name must not meet in one instantiation)
                        let mut used = std::collections::BTreeSet::new();
                        for a in &args {
                            model::collect_users(a, &mut used);
                        }
                        let free: Vec<usize> = user_cands
                            .iter()
                            .copied()
                            .filter(|c| !used.iter().any(|u| u != c && cx.types[*u].ts_name() == cx.types[*c].ts_name()))
                            .collect();
                        match free.is_empty() {
                            false => args.push(TyExpr::User(*t.pick(&free), vec![])),
                            true => args.push(TyExpr::Prim("i32")),
                        }
                    } else {
                        args.push(simple_args[(t.choose(simple_args.len()) + k) % simple_args.len()].clone());
                    }
                }
                // known finding (optional-fields-on-bare-parameter-instantiated-with-option):
                // `optional_fields` looks at the concrete argument, so `G<Option<_>>` gets a `?`
                // that the generic declaration does not have
                if td.attrs.optional_fields.is_some() && !profile.known_optional_fields_generic {
                    for (k, p) in td.params.iter().enumerate() {
                        let bare = td.all_fields().iter().any(|f| matches!(&f.ty, TyExpr::Param(n) if *n == p.name));
                        if bare {
                            if let TyExpr::Option(inner) = &args[k] {
                                args[k] = (**inner).clone();
                            }
                        }
                    }
                }
                let inst = TyExpr::User(i, args);
                if !insts.contains(&inst) {
                    insts.push(inst);
                }
            }
        }
    }
    Module { name: name.to_string(), types: cx.types, insts, serde: profile.serde, extra_roots: vec![], without_ts_derive: false }
}
