#![no_main]
//! libFuzzer target for the text level of C05: bytes are decoded into 2-4 standalone texts in
//! export_to_string's format; merge() folded over orders must equal the reference combiner.
use libfuzzer_sys::fuzz_target;

#[path = "../purefn/src/c05core.rs"]
mod c05core;
use c05core::*;

fn piece(b: &[u8], exclude_known: bool) -> Piece {
    let g = |i: usize| b.get(i).copied().unwrap_or(0) as usize;
    let mut imports = std::collections::BTreeMap::new();
    for k in 0..(g(2) % 4) {
        let m = MODS[g(3 + k) % MODS.len()].to_string();
        let mut names: Vec<String> = (0..1 + g(7 + k) % 3)
            .map(|j| IMPORT_NAMES[g(10 + k * 3 + j) % IMPORT_NAMES.len()].to_string())
            .map(|n| if n == "from" && exclude_known { "fromage".to_string() } else { n })
            .collect();
        names.sort();
        names.dedup();
        imports.insert(m, names);
    }
    let doc = match g(20) % 4 {
        0 => None,
        1 => Some((0..1 + g(21) % 3).map(|j| DOC_LINES[g(22 + j) % DOC_LINES.len()].to_string()).collect()),
        2 => Some(vec![RAW_BLOCK_DOCS[g(25) % RAW_BLOCK_DOCS.len()].to_string()]),
        3 => Some(vec!["\n * block with blank\n\n * second line\n ".to_string()]),
        _ => None,
    };
    Piece { name: NAMES[g(0) % NAMES.len()].to_string(), generics: GENERICS[g(1) % GENERICS.len()].to_string(), imports: imports.into_iter().collect(), doc, body: {
        // (the bodies behind the former merge findings are part of the pool: field doc containing
        // `export type`, blank line inside a field doc)
        let k = g(26) % (BODIES.len() + 2);
        if k < BODIES.len() { BODIES[k].to_string() } else if k == BODIES.len() { BODY_EXPORT_WORD.to_string() } else { BODY_BLANK_LINE.to_string() }
    } }
}

fuzz_target!(|data: &[u8]| {
    if data.len() < 8 {
        return;
    }
    let n = 2 + (data[0] as usize % 3);
    let chunk = (data.len() - 1) / n;
    if chunk == 0 {
        return;
    }
    let mut pieces: Vec<Piece> = (0..n).map(|i| piece(&data[1 + i * chunk..1 + (i + 1) * chunk], false)).collect();
    let mut seen = std::collections::BTreeSet::new();
    pieces.retain(|p| seen.insert(p.name.clone()));
    if pieces.len() < 2 {
        return;
    }
    let note = ts_rs::verif_hooks::note();
    let texts: Vec<String> = pieces.iter().map(|p| render(p, note)).collect();
    let orders = permutations(texts.len());
    if let Some(f) = check_set(note, &texts, &orders) {
        eprintln!("VERIF-FUZZ-VIOLATION {}", f);
        std::process::abort();
    }
});
