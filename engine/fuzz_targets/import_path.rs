#![no_main]
//! libFuzzer target for C08: bytes are decoded into a (base, importing file, imported file)
//! triple over a component table; the real import_path (cfg(ts_rs_verif) hook) is compared with
//! the lexical reference resolver. A violation aborts the process (= crash artifact).
use std::path::Path;

use libfuzzer_sys::fuzz_target;
use oracles::paths::{self, SpecVerdict};

const COMPS: &[&str] = &["a", "b", "a.b", "ts", "x.ts", "foo.d", ".", "..", "c", "dd", "e_e", "ä", "x y", "a.ts", "..a", "a.."];
const FILES: &[&str] = &["A.ts", "b.ts", "ts.ts", "x.d.ts", "a.b.ts", "x.ts.ts", "q.ts", "ä.ts"];
const BASES: &[&str] = &["bindings", "./x/../bindings/.", "/fz/abs/out", "../..", "out/deep/er"];

fn decode(data: &[u8]) -> Option<(String, String)> {
    if data.len() < 4 {
        return None;
    }
    let base1 = BASES[data[0] as usize % BASES.len()];
    let base2 = if data[1] & 1 == 0 { base1 } else { BASES[(data[1] >> 1) as usize % BASES.len()] };
    let split = 2 + (data[2] as usize % (data.len() - 2));
    let path = |base: &str, bytes: &[u8], file: u8| {
        let mut p = String::from(base);
        for b in bytes.iter().take(6) {
            p.push('/');
            p.push_str(COMPS[*b as usize % COMPS.len()]);
        }
        p.push('/');
        p.push_str(FILES[file as usize % FILES.len()]);
        p
    };
    Some((path(base1, &data[3..split.max(3)], data[2] >> 3), path(base2, &data[split..], data[1] >> 2)))
}

fuzz_target!(|data: &[u8]| {
    let Some((from, to)) = decode(data) else { return };
    let cwd = std::env::current_dir().unwrap().to_string_lossy().into_owned();
    let esm = cfg!(feature = "esm");
    let (nf, nt) = (paths::normalize(&cwd, &from), paths::normalize(&cwd, &to));
    if let (Some(f), Some(t)) = (&nf, &nt) {
        // a file cannot be a directory on the way to the other one
        if f != t && (f.starts_with(t) || t.starts_with(f)) {
            return;
        }
    }
    match ts_rs::verif_hooks::import_path(Path::new(&from), Path::new(&to)) {
        Err(_) => {
            if nf.is_some() && nt.is_some() {
                eprintln!("VERIF-FUZZ-VIOLATION {}", serde_json::json!({"signature": "unexpected-err", "case": {"kind": "c08", "cwd": cwd, "from": from, "to": to, "esm": esm}}));
                std::process::abort();
            }
        }
        Ok(spec) => {
            if nf.is_none() || nt.is_none() {
                eprintln!("VERIF-FUZZ-VIOLATION {}", serde_json::json!({"signature": "root-pop", "case": {"kind": "c08", "cwd": cwd, "from": from, "to": to, "esm": esm}}));
                std::process::abort();
            }
            if let SpecVerdict::Bad(m) = paths::check_specifier(&cwd, &from, &to, &spec, esm) {
                eprintln!("VERIF-FUZZ-VIOLATION {}", serde_json::json!({"signature": "wrong-specifier", "message": m, "case": {"kind": "c08", "cwd": cwd, "from": from, "to": to, "esm": esm}}));
                std::process::abort();
            }
        }
    }
});
